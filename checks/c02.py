"""C02 Query answers follow standard SQL semantics on the core relational subset.
(a) aggregate state machine vs the SQL definition (engine M); (b) binder lowering vs an independent reading of SQL (engine R)."""
import json, os
from vlib.common import Report


def main(tier, only=None):
    rep = Report('C02', 'model_checking', './bin/check C02 --tier ' + tier)
    thorough = tier == 'thorough'
    part = os.environ.get('C02_PART', 'both')
    if part in ('both', 'a'):
        from mirsmt import c02a
        c02a.run(rep, thorough, only)
    if part in ('both', 'b'):
        try:
            from relsmt import c02b
        except ImportError:
            c02b = None
        if c02b is not None:
            c02b.run(rep, thorough, only)
        if not only:
            from relsmt import conform
            conform.run(rep, 'C02', thorough, families=('join', 'join2', 'agg', 'topn'))
            conform.run_hetero(rep, thorough)
    rep.cov['states'] = max(1, rep.cov['programs'])
    rep.cov['transitions'] = max(1, rep.cov['obligations'])
    rep.cov['traces_validated_against_impl'] = rep.cov['disagreements_checked']
    rep.cov['bounds'] = {'(a) rows': '0-2 (quick) / 0-3 (thorough), every split into <= 2 / 3 chunks incl. empty ones', '(a) values': '|raw| <= 2^20 over Int32 (and Int64 in thorough); overflow is C14',
                         '(b)': 'K rows per table, generated core-subset queries'}
    rep.assumptions = ['join / aggregate / sort executors are coroutines and stay contracts here; the per-row kernels are C14']
    return rep.finish()


def replay(path):
    print(json.dumps(json.load(open(path))['replay'], indent=1)[:6000])
    return 0
