"""Shared machinery for /verif checks: builds, driver calls, evidence, known findings, reporting."""
import json, os, subprocess, sys, time, hashlib, shutil, tempfile

VERIF = os.path.dirname(os.path.dirname(os.path.abspath(__file__)))
REPO = os.environ.get('VERIF_REPO', '/repo')
TARGET = os.path.join(VERIF, 'target')
REPO_TOOLCHAIN = open(os.path.join(REPO, 'rust-toolchain')).read().strip() if os.path.exists(os.path.join(REPO, 'rust-toolchain')) else 'nightly-2025-08-08'
GUARD_FLAGS = '--cfg tokio_unstable --cfg risinglight_verif'


def tier():
    return os.environ.get('VERIF_TIER', 'quick')


def seed():
    try:
        return int(os.environ.get('VERIF_SEED', '0'))
    except ValueError:
        return 0


def log(*a):
    print(*a, file=sys.stderr, flush=True)


def repo_rev():
    try:
        h = subprocess.run(['git', '-C', REPO, 'rev-parse', '--short', 'HEAD'], capture_output=True, text=True).stdout.strip()
        d = subprocess.run(['git', '-C', REPO, 'status', '--porcelain', '--untracked-files=no'], capture_output=True, text=True).stdout.strip()
        return h + ('+dirty' if d else '')
    except Exception:
        return 'unknown'


class Inconclusive(Exception):
    """The machinery could not decide (build failure, parser refusal, solver unknown...). Exit code 2."""


def cargo_env(extra_rustflags=''):
    env = dict(os.environ)
    env['RUSTUP_TOOLCHAIN'] = REPO_TOOLCHAIN
    env['CARGO_NET_OFFLINE'] = 'true'
    env['RUSTFLAGS'] = (GUARD_FLAGS + ' ' + extra_rustflags).strip()
    env['RUST_BACKTRACE'] = '0'
    return env


_driver = None


def point_manifest_at_repo(crate_dir):
    """The committed Cargo.toml depends on /repo; an isolated run (VERIF_REPO=<copy>) rewrites its own copy of the manifest."""
    if REPO == '/repo':
        return
    p = os.path.join(crate_dir, 'Cargo.toml')
    s = open(p).read()
    s2 = s.replace('"/repo"', '"%s"' % REPO).replace('"/repo/', '"%s/' % REPO)
    if s2 != s:
        open(p, 'w').write(s2)


def build_driver(release=False):
    """(Re)build the driver against /repo's current working tree with hooks on. ~60 s cold, ~5-15 s warm.
    release=True builds the profile users run (overflow checks off, optimised): used by the thorough tier's replays."""
    global _driver
    key = 'release' if release else 'debug'
    if _driver and key in _driver:
        return _driver[key]
    _driver = _driver or {}
    d = os.path.join(VERIF, 'driver')
    lock = os.path.join(d, 'Cargo.lock')
    point_manifest_at_repo(d)
    shutil.copyfile(os.path.join(REPO, 'Cargo.lock'), lock)
    t0 = time.time()
    p = subprocess.run(['cargo', 'build', '--target-dir', os.path.join(TARGET, 'driver')] + (['--release'] if release else []), cwd=d, env=cargo_env(),
                       capture_output=True, text=True)
    if p.returncode != 0:
        log(p.stderr[-4000:])
        raise Inconclusive('driver build against /repo failed (does /repo compile with --cfg risinglight_verif?)')
    log('driver (%s) built in %.1fs' % (key, time.time() - t0))
    _driver[key] = os.path.join(TARGET, 'driver', key, 'rl')
    return _driver[key]


def rl(cmd, inp=None, timeout=120, release=False):
    """Run a driver sub-command; returns (list of JSON lines, returncode, stderr)."""
    exe = build_driver(release)
    env = dict(os.environ)
    env['RUST_BACKTRACE'] = '0'
    try:
        p = subprocess.run([exe, cmd], input=json.dumps(inp) if inp is not None else None, capture_output=True, text=True,
                           timeout=timeout, env=env)
    except subprocess.TimeoutExpired:
        return [], -9, 'timeout'
    out = []
    for ln in p.stdout.splitlines():
        ln = ln.strip()
        if not ln.startswith(('{', '[')):
            continue
        try:
            out.append(json.loads(ln))
        except ValueError:
            pass
    return out, p.returncode, p.stderr


# ---------------------------------------------------------------- known findings
class Findings:
    def __init__(self):
        p = os.path.join(VERIF, 'known_findings.json')
        self.entries = []
        if os.path.exists(p):
            self.entries = json.load(open(p)).get('findings', [])

    def lookup(self, prop, key):
        for e in self.entries:
            if e.get('status', 'open') != 'open':
                continue  # "fixed" entries suppress nothing
            if prop in e['properties'] and e['key'] == key:
                return e
        return None


# ---------------------------------------------------------------- reporting
class Report:
    """Collects the outcome of one check run and writes evidence + replay files."""

    def __init__(self, prop, level, checker_cmd):
        self.prop = prop
        self.level = level
        self.t0 = time.time()
        self.findings = Findings()
        self.cov = {'checker_cmd': checker_cmd, 'samples': [], 'trusted_base': [], 'obligations': 0, 'discharged': 0,
                    'programs': 0, 'disagreements_checked': 0, 'skipped': [], 'solver_s': 0.0, 'queries': 0,
                    'functions_encoded': [], 'bounds': {}, 'known_findings_hit': [], 'vacuity_witnesses': 0,
                    'repo_rev': repo_rev()}
        self.assumptions = []
        self.violations = []     # new, reproduced
        self.known = []
        self.inconclusive = []
        self._seen_known = set()

    # -- coverage helpers
    def sample(self, s, cap=12):
        if len(self.cov['samples']) < cap:
            self.cov['samples'].append(s)

    def obligation(self, discharged=True):
        self.cov['obligations'] += 1
        if discharged:
            self.cov['discharged'] += 1

    def skip(self, what, why):
        self.cov['skipped'].append({'item': what, 'why': why})

    def solver(self, seconds, queries=1):
        self.cov['solver_s'] = round(self.cov['solver_s'] + seconds, 3)
        self.cov['queries'] += queries

    # -- outcomes
    def counterexample(self, key, what, replay_obj, reproduced):
        """A solver counterexample after replay. reproduced: True / False / None(no replay possible)."""
        if reproduced is False:
            self.inconclusive.append('counterexample did not reproduce on the real build: %s (%s)' % (key, what))
            self._write_replay(key, replay_obj, 'spurious')
            return 'spurious'
        e = self.findings.lookup(self.prop, key)
        if e is not None:
            if key not in self._seen_known:
                self._seen_known.add(key)
                self.known.append((key, e.get('what', what)))
                self.cov['known_findings_hit'].append(key)
                print('KNOWN-FINDING: property=%s %s [%s]' % (self.prop, e.get('what', what), key), flush=True)
            return 'known'
        path = self._write_replay(key, replay_obj, 'violation')
        self.violations.append((key, what, path))
        print('VIOLATION property=%s replay=%s' % (self.prop, path), flush=True)
        print('  what: %s [%s]' % (what, key), flush=True)
        return 'violation'

    def _write_replay(self, key, obj, kind):
        d = os.path.join(os.environ['VERIF_EVIDENCE_DIR'], 'replays') if os.environ.get('VERIF_EVIDENCE_DIR') else os.path.join(VERIF, 'replays')
        os.makedirs(d, exist_ok=True)
        h = hashlib.sha1(key.encode()).hexdigest()[:10]
        path = os.path.join(d, '%s_%s_%s.json' % (self.prop, kind, h))
        json.dump({'property': self.prop, 'key': key, 'kind': kind, 'replay': obj}, open(path, 'w'), indent=1, default=str)
        return path

    def fail_inconclusive(self, why):
        self.inconclusive.append(why)

    def finish(self, extra_cov=None):
        cov = self.cov
        if extra_cov:
            cov.update(extra_cov)
        cov['inconclusive'] = self.inconclusive[:20]
        cov['skipped_count'] = len(cov['skipped'])
        cov['skipped'] = cov['skipped'][:40]
        if not cov['samples']:
            cov['samples'] = ['(no obligations were generated)']
        # generic keys (measured): evaluations = solver queries, distinct_nontrivial = obligations discharged
        cov.setdefault('evaluations', max(1, cov['queries']))
        cov.setdefault('distinct_nontrivial', cov['discharged'])
        cov.setdefault('rule', 'one obligation per (encoded unit, instantiation); counted once each; non-trivial = the solver was asked and answered')
        ev = {'property_id': self.prop, 'tier': tier(), 'seed': seed(), 'level': self.level, 'coverage': cov,
              'assumptions': self.assumptions, 'wall_s': round(time.time() - self.t0, 2),
              'violations': len(self.violations), 'known_findings': [k for k, _ in self.known]}
        d = os.environ.get('VERIF_EVIDENCE_DIR') or os.path.join(VERIF, 'evidence')   # (seeded-change runs write elsewhere)
        os.makedirs(d, exist_ok=True)
        json.dump(ev, open(os.path.join(d, self.prop + '.json'), 'w'), indent=1, default=str)
        log('%s: obligations=%d discharged=%d known=%d violations=%d inconclusive=%d solver=%.1fs wall=%.1fs' % (
            self.prop, cov['obligations'], cov['discharged'], len(self.known), len(self.violations), len(self.inconclusive),
            cov['solver_s'], time.time() - self.t0))
        for w in self.inconclusive[:10]:
            log('INCONCLUSIVE: ' + w)
        if self.violations:
            return 1
        if self.inconclusive:
            return 2
        return 0


def scratch_dir(prefix='rlverif'):
    base = os.path.join(VERIF, 'work')
    os.makedirs(base, exist_ok=True)
    return tempfile.mkdtemp(prefix=prefix, dir=base)
