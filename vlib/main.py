"""Dispatcher: ./bin/check <id> [--tier quick|thorough] [--replay path]"""
import argparse, importlib, os, sys, json, traceback
from .common import Inconclusive, log

CHECKS = {
    'C01': 'relsmt.c01', 'C02': 'checks.c02', 'C06': 'kani.c06', 'C07': 'mirsmt.c07', 'C11': 'mirsmt.c11', 'C12': 'relsmt.c12',
    'C13': 'relsmt.c13', 'C14': 'mirsmt.c14', 'C16': 'mirsmt.c16', 'C19': 'kani.c19', 'C20': 'mirsmt.c20',
}


def main():
    ap = argparse.ArgumentParser()
    ap.add_argument('prop')
    ap.add_argument('--tier', default=os.environ.get('VERIF_TIER', 'quick'), choices=['quick', 'thorough'])
    ap.add_argument('--replay')
    ap.add_argument('--only', help='restrict to items whose name contains this text (debugging)')
    a = ap.parse_args()
    os.environ['VERIF_TIER'] = a.tier
    if a.only and not os.environ.get('VERIF_EVIDENCE_DIR'):
        # a partial (debugging) run must not replace the evidence of the full check
        d = os.path.join(os.path.dirname(os.path.dirname(os.path.abspath(__file__))), 'work', 'partial-evidence')
        os.makedirs(d, exist_ok=True)
        os.environ['VERIF_EVIDENCE_DIR'] = d
    if a.prop not in CHECKS:
        print('no check for ' + a.prop, file=sys.stderr)
        sys.exit(2)
    modname = CHECKS[a.prop]
    if modname in ('kani.c06', 'kani.c19'):
        import kani.check as kc
        fn = kc.c06 if a.prop == 'C06' else kc.c19
        try:
            rc = fn(a.tier, only=a.only) if not a.replay else (print(open(a.replay).read()[:6000]) or 0)
        except Inconclusive as ex:
            log('INCONCLUSIVE: %s' % ex)
            rc = 2
        sys.exit(rc)
    mod = importlib.import_module(modname)
    try:
        if a.replay:
            rc = (getattr(mod, 'replay', None) or getattr(mod, 'replay_cmd'))(a.replay)
        else:
            rc = mod.main(a.tier, only=a.only)
    except Inconclusive as ex:
        log('INCONCLUSIVE: %s' % ex)
        rc = 2
    sys.exit(rc)


if __name__ == '__main__':
    main()
