"""Query layer: translation validation of the real binder's plan against the real optimizer's plan, for all databases
within the bounds (C01 b, C12 b, C13).  Plans come from the driver (`rl plans`); counterexamples are replayed through
`Database::run` with the optimizer disabled vs enabled (`rl sql`)."""
import json, os, re, shutil, time
from z3 import Solver, And, Or, Not, sat, unsat, is_true
from vlib.common import rl, Inconclusive, scratch_dir, log
from . import sem
from .sem import Enc, NotEncodable, Unresolved, EnginePanics, bag_eq, bag_subset, card, seq_eq_vals, model_tables, model_rel
from .sexp import parse, show, lst
from .realize import sql_lit

CONFIGS = [
    {'name': 'mem'},
    {'name': 'disk', 'range': True, 'sorted': True},
]


def type_of(tstr):
    b = re.sub(r'\(.*', '', tstr.upper())
    return {'INT': 'I', 'INTEGER': 'I', 'BIGINT': 'I', 'SMALLINT': 'I', 'BOOLEAN': 'B', 'BOOL': 'B', 'STRING': 'S', 'VARCHAR': 'S', 'TEXT': 'S'}.get(b)


def variant_of(tstr):
    b = re.sub(r'\(.*', '', tstr.upper())
    return {'INT': 'Int32', 'INTEGER': 'Int32', 'BIGINT': 'Int64', 'SMALLINT': 'Int16', 'BOOLEAN': 'Bool', 'BOOL': 'Bool', 'STRING': 'String', 'VARCHAR': 'String'}.get(b)


def enc_tables_from_catalog(cat, used):
    """Tables referenced by the plans; None if some referenced column has a type outside the fragment."""
    tabs, variants, names = {}, {}, {}
    for t in cat:
        tid = str(t['id'])
        if tid not in used:
            continue
        if t.get('view'):
            return None, None, None
        cols = []
        for c in t['columns']:
            ty = type_of(c['type'])
            cols.append(('$%s.%d' % (tid, c['id']), ty, c['nullable'] and not c['primary'], c['primary']))
            variants[(tid, '$%s.%d' % (tid, c['id']))] = variant_of(c['type'])
        tabs[tid] = cols
        names[tid] = (t['name'], t['columns'])
    return tabs, variants, names


def used_tables(*plans):
    u = set()
    for p in plans:
        u |= set(re.findall(r'\(scan \$(\d+) ', p))
    return u


def strip_unsupported_cols(tabs, plans_text):
    """Columns of non-encodable types are fine as long as no plan touches them."""
    out = {}
    for tid, cols in tabs.items():
        keep = []
        for col in cols:
            ck, ty = col[0], col[1]
            if ty is None:
                if re.search(re.escape(ck) + r'(?![\d(])', plans_text):
                    return None
                continue
            keep.append(col)
        out[tid] = keep
    return out


def root_shape(bound):
    """(limit, offset, order keys) of the bound plan's root: (limit l o (proj es (order ks ...)))."""
    p = bound
    lim, off, ks = 'null', '0', []
    if isinstance(p, list) and p[0] == 'limit':
        lim, off = p[1], p[2]
        p = p[3]
    q = p
    while isinstance(q, list) and q[0] in ('proj', 'filter'):
        q = q[2]
    if isinstance(q, list) and q[0] == 'order':
        ks = lst(q[1])
    return lim, off, ks, p


def has_inner_limit(p, root=True):
    if isinstance(p, str):
        return False
    if p[0] in ('limit', 'topn') and not root:
        if not (p[0] == 'limit' and p[1] == 'null' and p[2] == '0'):
            return True
    return any(has_inner_limit(x, False) for x in p[1:])


def solve_pair(task):
    """Worker. task: dict(sql, bound, opt, ranges, tabs, variants, K, cfg, use_ranges)."""
    t0 = time.time()
    res = {'sql': task['sql'], 'cfg': task['cfg'], 'bound': task['bound'], 'opt': task['opt'], 'K': task['K']}
    try:
        B, O = parse(task['bound']), parse(task['opt'])
    except ValueError as ex:
        res.update(verdict='skip', why='unparsable plan: %s' % ex)
        return res
    k = task['K']
    while True:
        r = _solve(task, B, O, k, res)
        if r['verdict'] != 'unknown' or k <= 2:
            break
        k -= 1
        r['note'] = 'solver gave up at K=%d' % (k + 1)
    r['K'] = k
    r['solver_s'] = time.time() - t0
    return r


def _solve(task, B, O, K, res):
    res = dict(res)
    lim, off, ks, body = root_shape(B)
    limited = not (lim == 'null' and off == '0')
    if has_inner_limit(B):
        res.update(verdict='skip', why='LIMIT inside a subquery (which rows it keeps is unspecified)')
        return res
    enc = Enc(task['tabs'], K=K, contracts=task.get('contracts'))
    enc.engine = 'disk' if task['cfg'].startswith('disk') else 'mem'
    enc.scan_col_variant = {tuple(k.split('|')): v for k, v in task['variants'].items()}
    try:
        enc.scan_ranges = None
        RB = enc.plan(B)
        RBfull = enc.plan(body) if (limited and not ks) else None
        nreq = len(enc.requirements)
        if task.get('use_ranges'):
            enc.scan_ranges = {r['filter']: r['range'] for r in task['ranges']}
        RO = enc.plan(O)
    except NotEncodable as ex:
        res.update(verdict='skip', why='not encodable: %s' % ex)
        return res
    except EnginePanics as ex:
        # whatever the data (as long as the scanned table is not empty) the optimized plan makes the engine panic
        s = Solver()
        s.add(enc.cons + enc.strlit_constraints())
        for t, rows in enc.tabs.items():
            s.add(rows[0][0])
        if s.check() != sat:
            res.update(verdict='vacuous')
            return res
        m = s.model()
        res.update(verdict='sat', mode='engine-panic', db=model_tables(m, enc), rows_bound=model_rel(m, RB), rows_opt=None,
                   strmap=enc.assign_strlits(), broken_req=[str(ex)])
        return res
    except Unresolved as ex:
        res.update(verdict='dangling', why='optimized plan references a column its input does not produce: %s' % ex)
        return res
    except (ValueError, IndexError, KeyError) as ex:
        res.update(verdict='skip', why='encoder error: %r' % ex)
        return res
    if RB.width() != RO.width():
        res.update(verdict='skip', why='different output width')
        return res
    goal = []
    mode = 'bag'
    if limited and not ks:
        mode = 'unordered-limit'
        goal += [card(RB) == card(RO), bag_subset(RO, RBfull)]
    else:
        goal.append(bag_eq(RB, RO))
        if ks:
            mode = 'ordered'
            if RB.okeys is None:
                res.update(verdict='skip', why='bound plan lost its order keys')
                return res
            if RO.okeys is not None and len(RO.okeys[0]) == len(RB.okeys[0]):
                goal.append(sem.ordered_eq(RB, RO))
            else:
                # the optimized plan has no sort at its root: its slot sequence must still be sorted by the query's keys
                try:
                    goal.append(enc.is_sorted(RO, ks))
                except (Unresolved, NotEncodable):
                    mode = 'ordered(sequence not checkable: keys not in the output)'
    goal += [c for _, c in enc.requirements[nreq:]]
    s = Solver()
    s.set('timeout', 120000)
    s.add(enc.cons + enc.strlit_constraints() + [c for _, c in enc.requirements[:nreq]])
    if s.check() != sat:
        res.update(verdict='vacuous')
        return res
    s.add(Not(And(goal)))
    r = s.check()
    res['mode'] = mode
    if r == unsat:
        res['verdict'] = 'unsat'
        return res
    if r != sat:
        res['verdict'] = 'unknown'
        return res
    m = s.model()
    res.update(verdict='sat', db=model_tables(m, enc), rows_bound=model_rel(m, RB), rows_opt=model_rel(m, RO),
               strmap=enc.assign_strlits(), broken_req=[d for d, c in enc.requirements[nreq:] if not is_true(m.eval(c, model_completion=True))])
    return res


# ---------------------------------------------------------------------------------------------- replay through SQL
def str_image(v, strmap):
    """Order-preserving string for an integer image, consistent with the literals' images."""
    inv = {i: s for s, i in strmap.items()}
    if v in inv:
        return inv[v]
    lits = sorted(strmap.items(), key=lambda kv: kv[1])
    below = [s for s, i in lits if i < v]
    if not below:
        return '!%03d' % (v + 500)      # '!' sorts before letters and digits
    base = below[-1]
    return base + '!%03d' % (v + 500)


def table_sql(names, tid, db_rows, strmap, single_insert=False):
    name, cols = names[tid]
    out = []
    tuples = []
    for row in db_rows:
        vals = []
        for c, v in zip([c for c in cols if type_of(c['type'])], row):
            if v is None:
                vals.append('NULL')
            elif type_of(c['type']) == 'S':
                vals.append("'" + str_image(v, strmap).replace("'", "''") + "'")
            else:
                vals.append(sql_lit(v))
        enc_cols = [c['name'] for c in cols if type_of(c['type'])]
        tuples.append('(%s)' % ', '.join(vals))
        out.append('insert into %s(%s) values (%s)' % (name, ', '.join(enc_cols), ', '.join(vals)))
    if single_insert and tuples:
        return ['insert into %s(%s) values %s' % (name, ', '.join(enc_cols), ', '.join(tuples))]
    return out


def run_sql(engine, stmts, tries=1, block=64, rowset=256):
    runs = []
    for _ in range(tries):
        d = None
        inp = {'engine': engine, 'stmts': stmts}
        if engine == 'disk':
            d = scratch_dir('replaydb')
            inp.update(dir=d, block=block, rowset=rowset)
        out, rc, err = rl('sql', inp, timeout=120)
        if d:
            shutil.rmtree(d, ignore_errors=True)
        runs.append((out, rc, err))
    return runs


def stats_stmts(cfgobj):
    """Pin the statistics the optimizer sees to the ones the analysed plan was produced with: a mocked row count
    replaces *all* storage statistics, so mocking only a dummy table reproduces `no statistics`."""
    st = (cfgobj or {}).get('stats')
    if st:
        return ['set mock_rowcount_%s = %d' % (t, n) for t, n in st.items()]
    return ['set mock_rowcount_zz_verif_dummy = 1']


def replay_sql(ddl, names, res, cfgname, ordered_cols=None, tries=1, cfgobj=None, single_insert=False):
    """Build the model database, run the query with the optimizer off and on. Returns dict(reproduced, how)."""
    ins = []
    for tid, rows in sorted(res['db'].items()):
        ins += table_sql(names, tid, rows, res.get('strmap') or {}, single_insert)
    engine = 'disk' if cfgname.startswith('disk') else 'mem'
    stmts = list(ddl) + ['create table zz_verif_dummy(z int)'] + ins + stats_stmts(cfgobj) + ['pragma disable_optimizer', res['sql'], 'pragma enable_optimizer', res['sql']]
    how = {'engine': engine, 'stmts': stmts}
    any_diff = False
    last = None
    for out, rc, err in run_sql(engine, stmts, tries, block=4096 if single_insert else 64, rowset=(1 << 20) if single_insert else 256):
        qs = [o for o in out if o.get('sql') == res['sql']]
        if len(qs) != 2:
            how['note'] = 'replay did not complete: rc=%s %s' % (rc, err[-300:])
            return {'reproduced': None, 'how': how}
        off, on = qs
        last = (off, on)

        def rows(o):
            return None if (not o.get('ok') or o.get('panicked')) else o['rows']
        a, b = rows(off), rows(on)
        how['optimizer_off'], how['optimizer_on'] = (a if a is not None else off.get('err', 'panic')), (b if b is not None else on.get('err', 'panic'))
        if a is None and b is None:
            continue
        if a is None or b is None:
            how['note'] = 'one side failed: off=%s on=%s' % (off.get('err') or off.get('panicked'), on.get('err') or on.get('panicked'))
            one_failed = True
            any_diff = True
            break
        if sorted(map(json.dumps, a)) != sorted(map(json.dumps, b)):
            any_diff = True
            break
        if ordered_cols is not None and [[r[i] for i in ordered_cols] for r in a] != [[r[i] for i in ordered_cols] for r in b]:
            any_diff = True
            break
    if last is None:
        return {'reproduced': None, 'how': how}
    if not any_diff and how.get('optimizer_off') is not None and not isinstance(how.get('optimizer_off'), list) and not isinstance(how.get('optimizer_on'), list):
        how['note'] = 'the query fails with the optimizer off and on (e.g. right/full outer nested-loop join is unimplemented): not replayable'
        return {'reproduced': None, 'how': how}
    return {'reproduced': any_diff, 'how': how}
