"""C01 Query optimization never changes a query's answer."""
import json
from vlib.common import Report, rl
from .rules_extract import load_rules
from . import rules_check


def family(thorough):
    """Queries whose answer depends on facts a schema-level analysis might over-generalise: NULL tests on NOT NULL / primary
    key columns of the NULL-supplying side of an outer join, constants compared with constants of another width, predicates
    that hold on base tables but not above a join or an aggregation."""
    from . import corpus
    ddl = corpus.schema_ddl()
    qs = []
    # t(a pk, b, c)  u(x, y)  w(p pk, q, r)
    for jt in ('LEFT', 'RIGHT', 'FULL', 'INNER'):
        for l, r, on in (('u', 'w', 'u.x = w.p'), ('t', 'w', 't.b = w.p'), ('w', 't', 'w.q = t.a'), ('u', 't', 'u.y = t.a')):
            pk = {'w': 'w.p', 't': 't.a'}
            for side in (l, r):
                if side not in pk:
                    continue
                k = pk[side]
                other = (r if side == l else l)
                oc = {'u': 'u.x', 't': 't.b', 'w': 'w.q'}[other]
                qs += ['SELECT %s, %s FROM %s %s JOIN %s ON %s WHERE %s IS NULL' % (oc, k, l, jt, r, on, k),
                       'SELECT %s, %s FROM %s %s JOIN %s ON %s WHERE %s IS NOT NULL' % (oc, k, l, jt, r, on, k),
                       'SELECT %s, (%s IS NULL) FROM %s %s JOIN %s ON %s' % (oc, k, l, jt, r, on),
                       'SELECT count(*) FROM %s %s JOIN %s ON %s WHERE NOT (%s IS NULL)' % (l, jt, r, on, k)]
    # NULL tests above aggregation / on the base table (controls)
    qs += ['SELECT t.a FROM t WHERE t.a IS NULL', 'SELECT t.a FROM t WHERE t.a IS NOT NULL', 'SELECT (max(t.a) IS NULL) FROM t', 'SELECT w.p, (min(t.a) IS NULL) FROM w LEFT JOIN t ON w.q = t.a GROUP BY w.p',
           'SELECT u.x FROM u WHERE u.x IN (SELECT t.a FROM t) OR u.x IS NULL', 'SELECT u.x FROM u WHERE NOT EXISTS (SELECT 1 FROM t WHERE t.a = u.x)']
    # choices the cost model makes between physical alternatives that differ in what they promise (sorted output or not):
    # grouped and ordered queries on a key, whose plan depends on the row estimates (the tiny-statistics configurations)
    qs2 = ['SELECT a, count(*) FROM t GROUP BY a ORDER BY a', 'SELECT a, sum(b) FROM t WHERE b > 0 GROUP BY a ORDER BY a', 'SELECT p, count(*), max(q) FROM w GROUP BY p ORDER BY p DESC',
           'SELECT a, b, count(*) FROM t GROUP BY a, b ORDER BY a, b', 'SELECT a FROM t ORDER BY a', 'SELECT a, b FROM t WHERE b > 0 ORDER BY a', 'SELECT DISTINCT a FROM t ORDER BY a',
           'SELECT a, max(c) FROM t GROUP BY a ORDER BY a DESC']
    return [('family:outer-join-null-tests', ddl, qs), ('family:cost-dependent-order', ddl, qs2)]


def main(tier, only=None):
    rep = Report('C01', 'translation_validation', './bin/check C01 --tier ' + tier)
    thorough = tier == 'thorough'
    rules, not_compiled, inv = load_rules()
    rep.cov['functions_encoded'] = ['%d compiled rewrite rules (%d inventory entries over stage1/2/2-range/3) from src/planner/rules/{expr,plan,order,range}.rs' % (len(rules), len(inv)),
                                    'Optimizer::verif_apply_rule applies each real rule to each instance']
    rep.cov['trusted_base'] = ['relsmt/sem.py operator model (3VL, joins, aggregates, sort, limit)', 'executor contracts: hashjoin key equality is DataValue equality; scans promise no order',
                               'z3 4.x', 'source parser for side conditions (relsmt/rules_extract.py) guides instantiation only: every instance is accepted or rejected by the real compiled rule']
    rep.assumptions = ['integers within +-64 (no overflow)', 'K rows per table', 'sort keys are distinct when a rule involves LIMIT over ORDER (tie-breaking is unspecified)']
    K = 4 if thorough else 3
    sel = (lambda r: only in r.name) if only else None
    import os
    if os.environ.get('C01_LAYER', 'both') in ('both', 'rules'):
        rules_check.run(rep, rules, K, thorough, select=sel)
    if os.environ.get('C01_LAYER', 'both') in ('both', 'queries'):
        from . import query_layer
        query_layer.TINY_STATS['on'] = True
        query_layer.run(rep, 'C01', K, thorough, 1500 if thorough else 150, only=only, extra_groups=family(thorough))
    # what R's scan model cannot see: how the executor turns a pushed predicate into a storage key range.  The scan
    # conformance probes compare, on the real disk engine, every small key-range query with the optimizer on (range pushed
    # into the scan) and off (full scan + filter) -- the statement of this property for those queries (concrete probes)
    if not only:
        from . import conform_scan
        conform_scan.run(rep, thorough)
        # likewise for how executor::build wires the optimizer-only join operators (hash / merge joins with residual
        # conditions exist only in optimized plans): each against the nested-loop join the unoptimized plan runs
        from . import conform
        conform.run(rep, 'C01', thorough, families=('join',))
    return rep.finish()


def replay(path):
    d = json.load(open(path))
    print(json.dumps(d['replay'].get('replay', d['replay']), indent=1)[:4000])
    return 0
