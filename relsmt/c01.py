"""C01 Query optimization never changes a query's answer."""
import json
from vlib.common import Report, rl
from .rules_extract import load_rules
from . import rules_check


def main(tier, only=None):
    rep = Report('C01', 'translation_validation', './bin/check C01 --tier ' + tier)
    thorough = tier == 'thorough'
    rules, not_compiled, inv = load_rules()
    rep.cov['functions_encoded'] = ['%d compiled rewrite rules (%d inventory entries over stage1/2/2-range/3) from src/planner/rules/{expr,plan,order,range}.rs' % (len(rules), len(inv)),
                                    'Optimizer::verif_apply_rule applies each real rule to each instance']
    rep.cov['trusted_base'] = ['relsmt/sem.py operator model (3VL, joins, aggregates, sort, limit)', 'executor contracts: hashjoin key equality is DataValue equality; scans promise no order',
                               'z3 4.x', 'source parser for side conditions (relsmt/rules_extract.py) guides instantiation only: every instance is accepted or rejected by the real compiled rule']
    rep.assumptions = ['integers within +-64 (no overflow)', 'K rows per table', 'sort keys are distinct when a rule involves LIMIT over ORDER (tie-breaking is unspecified)']
    K = 4 if thorough else 3
    sel = (lambda r: only in r.name) if only else None
    import os
    if os.environ.get('C01_LAYER', 'both') in ('both', 'rules'):
        rules_check.run(rep, rules, K, thorough, select=sel)
    if os.environ.get('C01_LAYER', 'both') in ('both', 'queries'):
        from . import query_layer
        query_layer.run(rep, 'C01', K, thorough, 1500 if thorough else 150, only=only)
    return rep.finish()


def replay(path):
    d = json.load(open(path))
    print(json.dumps(d['replay'].get('replay', d['replay']), indent=1)[:4000])
    return 0
