"""Query corpora for the query layer.

(i)  every SELECT in /repo/tests/sql/**/*.slt and tests/planner_test/*.sql with the schema in force where it appears;
(ii) a seeded grammar-generated corpus over a fixed 3-table schema, kept as an AST so that C02(b) can compute the
     SQL-standard meaning independently of the binder.
"""
import glob, os, random, re
from vlib.common import REPO

# ---------------------------------------------------------------------------------------------- fixed schema
SCHEMA = [
    ('t', [('a', 'I', True), ('b', 'I', False), ('c', 'I', False)]),     # (name, type, primary key)
    ('u', [('x', 'I', False), ('y', 'I', False)]),
    ('w', [('p', 'I', True), ('q', 'I', False), ('r', 'B', False)]),
]
SQLT = {'I': 'int', 'B': 'boolean', 'S': 'varchar'}


def schema_ddl(schema=SCHEMA):
    out = []
    for t, cols in schema:
        out.append('create table %s(%s)' % (t, ', '.join('%s %s%s' % (c, SQLT[ty], ' primary key' if pk else '') for c, ty, pk in cols)))
    return out


def enc_tables(schema=SCHEMA):
    """{table id: [(column key, type, nullable)]}: tables are numbered in creation order, as the catalog does."""
    return {str(i): [('$%d.%d' % (i, j), ty, not pk) for j, (c, ty, pk) in enumerate(cols)] for i, (t, cols) in enumerate(schema)}


# ---------------------------------------------------------------------------------------------- generator
class Gen:
    def __init__(self, seed, rich=False):
        self.r = random.Random(seed)
        self.rich = rich      # C02(b): also DISTINCT over GROUP BY, select lists that omit grouping keys, aggregate-free grouping

    def pick(self, xs):
        return xs[self.r.randrange(len(xs))]

    def chance(self, p):
        return self.r.random() < p

    # expressions are ASTs: ('col', table_alias, name, type) | ('lit', value, type) | (op, args...)
    def int_expr(self, cols, depth=0):
        ic = [c for c in cols if c[3] == 'I']
        if depth >= (2 if self.rich else 1) or self.chance(0.6):
            if ic and self.chance(0.75):
                return self.pick(ic)
            return ('lit', self.pick([0, 1, 2, 3, -1]), 'I')
        if self.rich and self.chance(0.3):
            # CASE WHEN c THEN a [ELSE b] END
            nb = self.pick([1, 2, 2, 3])
            whens = [(self.bool_expr(cols, 2), self.int_expr(cols, depth + 1)) for _ in range(nb)]
            return ('case', whens, self.int_expr(cols, depth + 1) if self.chance(0.7) else None)
        op = self.pick(['+', '-', '*'])
        return (op, self.int_expr(cols, depth + 1), self.int_expr(cols, depth + 1))

    def bool_expr(self, cols, depth=0, allow_sub=None):
        r = self.r.random()
        bc = [c for c in cols if c[3] == 'B']
        if depth < 2 and r < 0.25:
            return (self.pick(['and', 'or']), self.bool_expr(cols, depth + 1, allow_sub), self.bool_expr(cols, depth + 1, allow_sub))
        if depth < 2 and r < 0.32:
            return ('not', self.bool_expr(cols, depth + 1, allow_sub))
        if r < 0.42:
            return (self.pick(['isnull', 'isnotnull']), self.pick(cols))
        if bc and r < 0.48:
            return self.pick(bc)
        if r < 0.55:
            return ('inlist', self.int_expr(cols, 1), [('lit', v, 'I') for v in self.r.sample([0, 1, 2, 3], self.r.randrange(1, 4))] +
                    ([('lit', None, 'I')] if self.chance(0.25) else []))
        if allow_sub and r < 0.75:
            return self.subquery_pred(cols, allow_sub)
        if self.rich and self.chance(0.2):
            lo, hi = self.int_expr(cols, 1), self.int_expr(cols, 1)
            if self.chance(0.1):
                lo = ('lit', None, 'I')
            return ('between' if self.chance(0.6) else 'notbetween', self.int_expr(cols, 1), lo, hi)
        a, b = self.int_expr(cols, 1), self.int_expr(cols, 1)
        if self.chance(0.08):
            b = ('lit', None, 'I')
        return (self.pick(['=', '<>', '<', '<=', '>', '>=']), a, b)

    def subquery_pred(self, cols, tables):
        t = self.pick(tables)
        alias = 's'
        scols = [('col', alias, c, ty) for c, ty, _ in dict(SCHEMA)[t]]
        ic = [c for c in scols if c[3] == 'I']
        where = None
        kind = self.pick(['in', 'notin', 'exists', 'notexists'])
        corr = self.chance(0.7 if kind in ('exists', 'notexists') else 0.3)
        if corr:
            oc = [c for c in cols if c[3] == 'I']
            where = (self.pick(['=', '=', '>', '<']), self.pick(ic), self.pick(oc))
            if self.chance(0.3):
                where = ('and', where, self.bool_expr(scols, 2))
        elif self.chance(0.4):
            where = self.bool_expr(scols, 1)
        sub = {'from': [('table', t, alias)], 'where': where, 'select': [self.pick(ic)] if kind in ('in', 'notin') else [('lit', 1, 'I')]}
        if kind in ('in', 'notin'):
            return (kind, self.int_expr(cols, 1), sub)
        return (kind, sub)

    def query(self):
        r = self.r
        q = {'from': [], 'where': None, 'select': None, 'group': None, 'having': None, 'distinct': False, 'order': None, 'limit': None, 'offset': None}
        names = [t for t, _ in SCHEMA]
        nt = self.pick([1, 1, 1, 2, 2, 3])
        tabs = r.sample(names, nt)
        cols = []
        for i, t in enumerate(tabs):
            tc = [('col', t, c, ty) for c, ty, _ in dict(SCHEMA)[t]]
            if i == 0:
                q['from'].append(('table', t, t))
            else:
                jt = self.pick(['inner', 'inner', 'left', 'right', 'full', 'cross'])
                if jt == 'cross':
                    q['from'].append(('cross', t, t))
                else:
                    lc = [c for c in cols if c[3] == 'I']
                    rc = [c for c in tc if c[3] == 'I']
                    on = ('=', self.pick(lc), self.pick(rc))
                    if self.chance(0.35):
                        on = ('and', on, self.bool_expr(cols + tc, 2))
                    elif self.chance(0.15):
                        on = self.bool_expr(cols + tc, 1)
                    q['from'].append((jt, t, t, on))
            cols += tc
        others = [t for t in names if t not in tabs] or names
        if self.chance(0.65):
            q['where'] = self.bool_expr(cols, 0, allow_sub=others if self.chance(0.5) else None)
        agg = self.chance(0.35)
        if agg:
            ic = [c for c in cols if c[3] == 'I']
            gk = r.sample(cols, self.pick([0, 1, 1, 2])) if self.chance(0.8) else []
            q['group'] = gk
            aggs = []
            for _ in range(self.pick([1, 1, 2])):
                f = self.pick(['count*', 'count', 'sum', 'min', 'max', 'countd'])
                aggs.append(('agg', f, None if f == 'count*' else self.pick(ic)))
            q['select'] = list(gk) + aggs
            if self.rich and gk:
                keep = [k for k in gk if self.chance(0.6)]
                use_aggs = aggs if (self.chance(0.6) or not keep) else []
                q['select'] = keep + use_aggs
                q['distinct'] = self.chance(0.4)
            if gk and self.chance(0.3):
                a = self.pick(aggs)
                q['having'] = (self.pick(['>', '>=', '<', '=']), a, ('lit', self.pick([0, 1, 2]), 'I'))
        else:
            n = self.pick([1, 2, 2, 3])
            sel = []
            for _ in range(n):
                if self.chance(0.7):
                    sel.append(self.pick(cols))
                else:
                    sel.append(self.int_expr(cols, 0) if self.chance(0.7) else self.bool_expr(cols, 1))
            q['select'] = sel
            q['distinct'] = self.chance(0.15)
        if self.chance(0.45):
            # ORDER BY keys are taken from the select list so that ordering is observable in the result
            ks = [k for k in q['select']]
            r.shuffle(ks)
            ks = ks[:self.pick([1, 1, 2])]
            q['order'] = [(k, self.chance(0.35)) for k in ks]
        if self.chance(0.3):
            q['limit'] = self.pick([0, 1, 2, 3]) if self.chance(0.85) else None
            q['offset'] = self.pick([0, 0, 1, 2]) if (q['limit'] is None or self.chance(0.4)) else None
            if q['limit'] is None and not q['offset']:
                q['limit'] = 1
        return q


def e_sql(e):
    k = e[0]
    if k == 'col':
        return '%s.%s' % (e[1], e[2])
    if k == 'lit':
        v = e[1]
        return 'NULL' if v is None else ('true' if v is True else 'false' if v is False else str(v))
    if k in ('and', 'or'):
        return '(%s %s %s)' % (e_sql(e[1]), k.upper(), e_sql(e[2]))
    if k == 'not':
        return '(NOT %s)' % e_sql(e[1])
    if k == 'isnull':
        return '(%s IS NULL)' % e_sql(e[1])
    if k == 'isnotnull':
        return '(%s IS NOT NULL)' % e_sql(e[1])
    if k == 'inlist':
        return '(%s IN (%s))' % (e_sql(e[1]), ', '.join(e_sql(x) for x in e[2]))
    if k in ('in', 'notin'):
        return '(%s %s (%s))' % (e_sql(e[1]), 'IN' if k == 'in' else 'NOT IN', q_sql(e[2]))
    if k in ('exists', 'notexists'):
        return '(%s (%s))' % ('EXISTS' if k == 'exists' else 'NOT EXISTS', q_sql(e[1]))
    if k == 'agg':
        f, a = e[1], e[2]
        if f == 'count*':
            return 'count(*)'
        if f == 'countd':
            return 'count(distinct %s)' % e_sql(a)
        return '%s(%s)' % (f, e_sql(a))
    if k in ('+', '-', '*', '=', '<>', '<', '<=', '>', '>='):
        return '(%s %s %s)' % (e_sql(e[1]), k, e_sql(e[2]))
    if k in ('between', 'notbetween'):
        return '(%s %sBETWEEN %s AND %s)' % (e_sql(e[1]), 'NOT ' if k == 'notbetween' else '', e_sql(e[2]), e_sql(e[3]))
    if k == 'case':
        return '(CASE %s%s END)' % (' '.join('WHEN %s THEN %s' % (e_sql(c), e_sql(v)) for c, v in e[1]), '' if e[2] is None else ' ELSE ' + e_sql(e[2]))
    raise ValueError(k)


def q_sql(q):
    names = q.get('names') or [None] * len(q['select'])
    s = 'SELECT ' + ('DISTINCT ' if q.get('distinct') else '') + ', '.join(e_sql(x) + (' AS %s' % n if n else '') for x, n in zip(q['select'], names))
    fr = ''
    for i, f in enumerate(q['from']):
        t = ('(%s) AS %s' % (q_sql(f[1]), f[2])) if isinstance(f[1], dict) else (f[1] if f[1] == f[2] else '%s AS %s' % (f[1], f[2]))
        if i == 0:
            fr = t
        elif f[0] == 'cross':
            fr += ' CROSS JOIN ' + t
        else:
            fr += ' %s JOIN %s ON %s' % ({'inner': 'INNER', 'left': 'LEFT', 'right': 'RIGHT', 'full': 'FULL'}[f[0]], t, e_sql(f[3]))
    s += ' FROM ' + fr
    if q.get('where') is not None:
        s += ' WHERE ' + e_sql(q['where'])
    if q.get('group'):
        s += ' GROUP BY ' + ', '.join(e_sql(x) for x in q['group'])
    if q.get('having') is not None:
        s += ' HAVING ' + e_sql(q['having'])
    if q.get('order'):
        s += ' ORDER BY ' + ', '.join(e_sql(k) + (' DESC' if d else '') for k, d in q['order'])
    if q.get('limit') is not None:
        s += ' LIMIT %d' % q['limit']
    if q.get('offset'):
        s += ' OFFSET %d' % q['offset']
    return s


def generated(n, seed, rich=False):
    g = Gen(seed, rich)
    out, seen = [], set()
    tries = 0
    while len(out) < n and tries < n * 20:
        tries += 1
        q = g.query()
        s = q_sql(q)
        if s in seen:
            continue
        seen.add(s)
        out.append({'sql': s, 'ast': q})
    return out


# ---------------------------------------------------------------------------------------------- repository corpus
CREATE_RE = re.compile(r'create\s+table\s+(?:if\s+not\s+exists\s+)?(\w+)\s*\((.*)\)\s*;?\s*$', re.I | re.S)


def parse_create(sql):
    m = CREATE_RE.match(sql.strip())
    if not m:
        return None
    name, body = m.group(1).lower(), m.group(2)
    cols = []
    depth, cur, parts = 0, '', []
    for ch in body:
        if ch == '(':
            depth += 1
        if ch == ')':
            depth -= 1
        if ch == ',' and depth == 0:
            parts.append(cur)
            cur = ''
        else:
            cur += ch
    parts.append(cur)
    for p in parts:
        toks = p.strip().split()
        if not toks or toks[0].lower() in ('primary', 'foreign', 'unique', 'constraint'):
            if toks and toks[0].lower() == 'primary':
                pk = re.findall(r'\((.*?)\)', p)
                if pk:
                    for c in cols:
                        if c[0] in [x.strip().lower() for x in pk[0].split(',')]:
                            c[2] = True
            continue
        cname = toks[0].lower().strip('"')
        ty = toks[1].upper() if len(toks) > 1 else 'INT'
        pk = 'primary' in p.lower()
        notnull = 'not null' in p.lower() or pk
        base = re.sub(r'\(.*', '', ty)
        t = {'INT': 'I', 'INTEGER': 'I', 'BIGINT': 'I', 'SMALLINT': 'I', 'BOOLEAN': 'B', 'BOOL': 'B', 'VARCHAR': 'S', 'STRING': 'S', 'TEXT': 'S', 'CHAR': 'S'}.get(base)
        cols.append([cname, t, pk, notnull, base])
    return name, cols


def slt_records(path):
    txt = open(path).read()
    recs = re.split(r'\n\s*\n', txt)
    for r in recs:
        lines = [l for l in r.split('\n') if not l.startswith('#')]
        if not lines:
            continue
        head = lines[0].strip()
        if head.startswith('statement ok'):
            yield 'stmt', '\n'.join(lines[1:]).strip().rstrip(';')
        elif head.startswith('statement error'):
            yield 'err', '\n'.join(lines[1:]).strip()
        elif head.startswith('query error'):
            yield 'err', '\n'.join(lines[1:]).strip()
        elif head.startswith('query'):
            body = '\n'.join(lines[1:])
            sql = body.split('\n----')[0].strip().rstrip(';')
            yield 'query', sql


def repo_corpus():
    """[(origin, [ddl statements], {table: cols}, sql)] for every query record of the repository's .slt files."""
    out = []
    files = sorted(glob.glob(os.path.join(REPO, 'tests/sql/*.slt')))
    for f in files:
        ddl, tabs = [], {}
        for kind, sql in slt_records(f):
            low = sql.lower().lstrip()
            if kind == 'stmt':
                if low.startswith('create table'):
                    pc = parse_create(sql)
                    if pc:
                        tabs[pc[0]] = pc[1]
                        ddl.append(sql)
                    else:
                        ddl.append(sql)
                elif low.startswith('drop table'):
                    m = re.findall(r'drop\s+table\s+(?:if\s+exists\s+)?(\w+)', low)
                    for t in m:
                        tabs.pop(t, None)
                    ddl.append(sql)
                elif low.startswith(('create view', 'create function', 'create index', 'create materialized')):
                    ddl.append(sql)
            elif kind == 'query' and low.startswith(('select', 'with')):
                out.append((os.path.basename(f), list(ddl), {k: [list(c) for c in v] for k, v in tabs.items()}, sql))
    return out
