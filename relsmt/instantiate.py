"""Instantiate a rewrite rule's left-hand side into concrete, well-formed plans over a small fixed schema.

Plan variables become scans of distinct tables; opaque expression variables become *uninterpreted functions* of exactly
the columns the rule's position and side conditions allow them to read.  An uninterpreted function is written inside
risinglight's own plan language as a `||` chain tagged by a string literal, `(|| (|| 'uf:NAME:T' a1) a2)` (or the bare
symbol `UFC_NAME_T` when it reads nothing), so that the instance can be fed to the *real* compiled rule
(Optimizer::verif_apply_rule): the optimizer's analyses see precisely the columns the expression uses, nothing else.
"""
import itertools, re
from .sexp import parse, show, subst, lst, atoms

PLAN_VARS_ORDER = ['?left', '?right', '?mid', '?child', '?subquery']
NTABLES = 3
TABLE_COLS = 2


class CannotInstantiate(Exception):
    pass


def table_schema(i):
    return ['$%d.%d' % (i, c) for c in range(TABLE_COLS)]


def scan(i):
    return ['scan', '$%d' % i, ['list'] + table_schema(i), 'true']


def produced(schema_item):
    """How an expression above refers to a schema item (mirrors rules::plan::produced): a column by itself,
    anything else through (ref item)."""
    e = parse(schema_item) if isinstance(schema_item, str) else schema_item
    if isinstance(e, str) and e.startswith('$'):
        return e
    if isinstance(e, list) and e[0] == 'ref':
        return e
    return ['ref', e]


def uf(name, t, args):
    args = sorted(args, key=show)
    if not args:
        return 'UFC_%s_%s' % (name, t)
    e = "'uf:%s:%s'" % (name, t)
    for a in args:
        e = ['||', e, a]
    return e


def decode_uf(e):
    """Returns (name, type, [args]) if e is a UF application in the `||` encoding, else None."""
    if isinstance(e, str):
        m = re.match(r'UFC_(\w+)_([IBS])$', e)
        return (m.group(1), m.group(2), []) if m else None
    args = []
    while isinstance(e, list) and e[0] == '||' and len(e) == 3:
        args.append(e[2])
        e = e[1]
    if isinstance(e, str):
        m = re.match(r"'uf:(\w+):([IBS])'$", e)
        if m and args:
            return m.group(1), m.group(2), list(reversed(args))
    return None


def schema_of(p):
    """Output schema (list of key strings) of an instantiated plan; mirrors rules::schema::analyze_schema."""
    op = p[0]
    if op in ('filter', 'order'):
        return schema_of(p[2])
    if op == 'limit':
        return schema_of(p[3])
    if op == 'topn':
        return schema_of(p[4])
    if op == 'empty':
        return schema_of(p[1])
    if op in ('join', 'hashjoin', 'mergejoin', 'apply'):
        l, r = (p[3], p[4]) if op == 'join' else (p[2], p[3]) if op == 'apply' else (p[5], p[6])
        return schema_of(l) if p[1] in ('semi', 'anti') else schema_of(l) + schema_of(r)
    if op == 'scan':
        return [show(x) for x in lst(p[2])]
    if op in ('proj', 'agg'):
        return [show(x) for x in lst(p[1])]
    if op in ('hashagg', 'sortagg'):
        return [show(x) for x in lst(p[1])] + [show(x) for x in lst(p[2])]
    if op == 'values':
        return [show(x) for x in lst(p[1])]
    raise CannotInstantiate('schema of ' + op)


PLAIN_REFS = [False]


def visible(schema):
    """How expressions above a plan refer to its output columns. The binder refers to computed GROUP BY / DISTINCT keys
    by repeating the expression (no `ref`), which is what the `distinct` child shape reproduces."""
    if PLAIN_REFS[0]:
        return [parse(s) if isinstance(s, str) else s for s in schema]
    return [produced(s) for s in schema]


# signature of plan operators: kinds of children
SIG = {
    'filter': ['cond', 'plan'], 'proj': ['exprlist', 'plan'], 'order': ['orderkeys', 'plan'],
    'limit': ['count', 'count', 'plan'], 'topn': ['count', 'count', 'orderkeys', 'plan'],
    'join': ['jt', 'on', 'plan', 'plan'], 'hashjoin': ['jt', 'on', 'lkeys', 'rkeys', 'plan', 'plan'],
    'mergejoin': ['jt', 'on', 'lkeys', 'rkeys', 'plan', 'plan'], 'apply': ['jt', 'plan', 'cplan'],
    'agg': ['agglist', 'plan'], 'hashagg': ['keylist', 'agglist', 'plan'], 'sortagg': ['keylist', 'agglist', 'plan'],
    'scan': ['table', 'collist', 'cond'], 'empty': ['plan'], 'window': ['overlist', 'plan'],
}
PLAN_OPS = set(SIG)

AGG_VARIANTS = [
    lambda c0, c1: ['list', ['sum', c1]],
    lambda c0, c1: ['list', ['count', c1], 'rowcount'],
    lambda c0, c1: ['list', ['min', c1], ['max', c0]],
    lambda c0, c1: ['list', ['count-distinct', c1]],
]
ORDER_VARIANTS = [
    lambda c0, c1: ['list', c0],
    lambda c0, c1: ['list', ['desc', c0]],
    lambda c0, c1: ['list', c1, ['desc', c0]],
]
LIMOFF_QUICK = [('1', '0'), ('null', '1'), ('2', '1'), ('0', '0')]
LIMOFF_THOROUGH = [(l, o) for l in ('null', '0', '1', '2', '3') for o in ('0', '1', '2', '3')]
RANGE_FORMS = [
    lambda k: ['>', k, '0'], lambda k: ['>=', k, '0'], lambda k: ['<', k, '1'], lambda k: ['<=', k, '1'],
    lambda k: ['=', k, '0'], lambda k: ['<', '0', k], lambda k: ['>=', '1', k], lambda k: ['=', '1', k],
    lambda k: ['and', ['>=', k, '-1'], ['<', k, '1']], lambda k: ['and', ['<=', k, '2'], ['>', k, '0']],
]


def is_scalar_rule(lhs):
    ops = set(a for a in atoms(parse(lhs)))
    return not (ops & (PLAN_OPS | {'in', 'exists', 'max1row'}))


class Instance:
    def __init__(self, lhs, choice, setup, config, wrap=None):
        self.lhs, self.choice, self.setup, self.config, self.wrap = lhs, choice, setup, config, wrap


class Instantiator:
    """Builds instances of one rule. `choice` selects among variants: join type, limit/offset, agg list, order keys,
    sortedness source, range form."""

    def __init__(self, rule, thorough=False):
        self.rule = rule
        self.lhs = parse(rule.lhs)
        self.thorough = thorough
        self.vars = sorted(set(a for a in atoms(self.lhs) if a.startswith('?')))
        self.conds = rule.conds

    # ---- which variant axes does this rule have?
    def axes(self):
        ax = {}
        txt = self.rule.lhs
        if '?type' in self.vars:
            ax['jt'] = ['inner', 'left_outer', 'semi', 'anti', 'right_outer', 'full_outer']
        if '?limit' in self.vars or '?offset' in self.vars:
            ax['limoff'] = LIMOFF_THOROUGH if self.thorough else LIMOFF_QUICK
        if '?aggs' in self.vars:
            ax['aggs'] = list(range(len(AGG_VARIANTS))) if self.thorough else [0, 1]
        if any(v in self.vars for v in ('?keys',)) and re.search(r'\((order|topn) ', txt):
            ax['okeys'] = list(range(len(ORDER_VARIANTS))) if self.thorough else [0, 1]
        if any(c == 'is_orderby' for c, _ in self.conds):
            # how the input got its order: sorted by exactly the keys, by a proper prefix of them, by the keys with the first
            # direction flipped, by the keys plus one more, or stored in primary-key order
            ax['sortsrc'] = ['order', 'pk', 'order-prefix', 'order-flip', 'order-longer']
        if any(c == 'is_primary_key_range' for c, _ in self.conds):
            ax['range'] = list(range(len(RANGE_FORMS)))
        if re.search(r'\((hashagg|sortagg) \?keys', txt):
            ax['gkeys'] = ['col', 'uf'] if self.thorough else ['col']
        if self.rule.applier and self.rule.applier[0] in ('apply_proj', 'column_prune') and '?child' in self.vars:
            # the child is a plain scan, or a DISTINCT-style aggregation with a computed key (referred to without `ref`)
            ax['childshape'] = ['scan', 'distinct']
        if re.search(r'\(proj \?\w+', txt):
            # does the opaque projection expression read every input column, or only the first one?
            ax['pjscope'] = ['all', 'narrow'] if (self.thorough or self.rule.applier) else ['all']
            if self.rule.applier and '(scan ' in txt:
                ax['pjscope'] += ['none', 'second']      # the projection reads no column at all / only the second one
        if re.search(r'\(scan \?\w+ \?\w+ \?\w+\)', txt):
            ax['scanfilter'] = ['true', 'key']        # the scan carries a pushed-down predicate on its first column, or none
        return ax

    def choices(self):
        ax = self.axes()
        names = sorted(ax)
        for combo in itertools.product(*[ax[n] for n in names]):
            yield dict(zip(names, combo))

    # ---- instantiate
    def instantiate(self, choice):
        self.choice = choice
        PLAIN_REFS[0] = choice.get('childshape') == 'distinct'
        self.map = {}
        self.tab = {}
        nxt = 0
        # plan variables get tables by order of appearance in the pattern text
        for v in re.findall(r'\?\w+', self.rule.lhs):
            if v in PLAN_VARS_ORDER and v not in self.tab:
                if nxt >= NTABLES:
                    raise CannotInstantiate('more than %d plan variables' % NTABLES)
                self.tab[v] = nxt
                nxt += 1
        self.next_table = nxt
        self.scope = {}
        self.vkind = {}
        lhs = self.lhs
        wrap = None
        if isinstance(lhs, list) and lhs[0] not in PLAN_OPS:
            # expression-rooted rule with sub-plans (in / exists): evaluated against an implicit outer row of a table
            outer_t = self.next_table
            self.next_table += 1
            if self.next_table > NTABLES:
                raise CannotInstantiate('no table left for the outer row')
            wrap = outer_t
            self._expr(lhs, visible(table_schema(outer_t)), [], 'B')
            inst = subst(lhs, self._final_map())
            return Instance(inst, choice, choice.get('sortsrc') == 'pk', None, wrap=outer_t)
        self._plan(lhs, [])
        inst = subst(lhs, self._final_map())
        return Instance(inst, choice, choice.get('sortsrc') == 'pk', None)

    def _cond_args(self, name):
        return [a for c, a in self.conds if c == name]

    def _restrict(self, var, cols):
        """Apply side conditions to the read-scope of expression variable var."""
        cols = list(cols)
        for a in self._cond_args('not_depend_on'):
            if a[0] == var:
                excl = self._produced_by(a[1])
                cols = [c for c in cols if show(c) not in excl]
        for a in self._cond_args('all_depend_on'):
            if a[0] == var:
                incl = self._produced_by(a[1])
                cols = [c for c in cols if show(c) in incl]
        return cols

    def _produced_by(self, var):
        """Printed `produced` columns of the (already instantiated or table-bound) variable."""
        if var in self.tab:
            return set(table_schema(self.tab[var]))
        if var in self.map:
            e = self.map[var]
            if isinstance(e, list) and e[0] == 'list' or e == 'list':
                return set(show(produced(x)) for x in lst(e))
            try:
                return set(show(produced(s)) for s in schema_of(e))
            except CannotInstantiate:
                return set()
        return set()

    def _note_scope(self, var, cols):
        key = [show(c) for c in cols]
        if var in self.scope:
            self.scope[var] = [c for c in self.scope[var] if show(c) in key]
        else:
            self.scope[var] = list(cols)

    def _final_map(self):
        m = dict(self.map)
        for v, k in self.vkind.items():
            if v in m:
                continue
            name = v[1:]
            cols = self._restrict(v, self.scope.get(v, []))
            m[v] = uf(name, k, cols)
        return m

    def _plan_var(self, v, outer, correlated):
        i = self.tab[v]
        base = scan(i)
        if v == '?child' and self.choice.get('childshape') == 'distinct':
            c0, c1 = table_schema(i)
            base = ['hashagg', ['list', c0, uf('gk', 'I', [c0, c1])], 'list', base]
        sortsrc = self.choice.get('sortsrc')
        for a in self._cond_args('is_orderby'):
            if a[1] == v and sortsrc and sortsrc.startswith('order'):
                keys = lst(self._orderkeys_for(a[0], i))
                c0, c1 = table_schema(i)
                flip = lambda k: k[1] if (isinstance(k, list) and k[0] == 'desc') else ['desc', k]
                if sortsrc == 'order-prefix':
                    keys = keys[:-1]
                elif sortsrc == 'order-flip':
                    keys = [flip(keys[0])] + keys[1:]
                elif sortsrc == 'order-longer':
                    extra = c1 if show(c1) not in [show(k[1] if isinstance(k, list) and k[0] == 'desc' else k) for k in keys] else c0
                    keys = keys + [extra]
                base = ['order', ['list'] + keys, base]
        if correlated and outer and not any(a == [v, o] for a in self._cond_args('not_depend_on') for o in self.tab):
            cols = [c for c in outer] + visible(table_schema(i))
            base = ['filter', uf('corr' + v[1:], 'B', cols), base]
        self.map[v] = base
        return base

    def _orderkeys_for(self, keysvar, i):
        c0, c1 = table_schema(i)
        if keysvar not in self.map:
            if 'okeys' in self.choice:
                keys = ORDER_VARIANTS[self.choice['okeys']](c0, c1)
            else:
                keys = ['list', c0]
            if self.choice.get('sortsrc') == 'order-prefix' and len(keys) < 3:
                keys = keys + [c1]      # a proper, non-empty prefix needs at least two keys
            self.map[keysvar] = keys
        return self.map[keysvar]

    def _plan(self, p, outer, correlated=False):
        """Walk an LHS plan pattern; returns its schema (list of key strings)."""
        if isinstance(p, str):
            if p not in self.tab:
                raise CannotInstantiate('unexpected plan variable ' + p)
            if p not in self.map:
                self._plan_var(p, outer, correlated)
            return schema_of(self.map[p])
        op = p[0]
        if op not in SIG:
            raise CannotInstantiate('operator ' + op)
        sig = SIG[op]
        kids = p[1:]
        # children plans first
        schemas = {}
        for k, kind in zip(kids, sig):
            if kind == 'plan':
                schemas[id(k)] = self._plan(k, outer, correlated)
        plan_kids = [k for k, kind in zip(kids, sig) if kind == 'plan']
        lsch = schemas[id(plan_kids[0])] if plan_kids else []
        rsch = schemas[id(plan_kids[1])] if len(plan_kids) > 1 else []
        for k, kind in zip(kids, sig):
            if kind == 'cplan':
                schemas[id(k)] = self._plan(k, list(outer) + visible(lsch), True)
                rsch = schemas[id(k)]
        jt = None
        for k, kind in zip(kids, sig):
            if kind == 'jt':
                if k == '?type':
                    self.map['?type'] = self.choice['jt']
                    jt = self.choice['jt']
                else:
                    jt = k
        c0c1 = (lsch + [None, None])[:2]
        for k, kind in zip(kids, sig):
            if kind in ('plan', 'cplan', 'jt'):
                continue
            if kind == 'cond':
                if op == 'scan':
                    if k != 'true' and not (isinstance(k, str) and k.startswith('?')):
                        raise CannotInstantiate('scan filter pattern')
                    if isinstance(k, str) and k.startswith('?'):
                        if self.choice.get('scanfilter') == 'key' and getattr(self, 'scan_table', None) is not None:
                            self.map[k] = ['>', '$%d.0' % self.scan_table, '0']
                        else:
                            self.map[k] = 'true'
                    continue
                self._expr(k, visible(lsch) + list(outer), outer, 'B')
            elif kind == 'on':
                if op in ('hashjoin', 'mergejoin') and jt not in ('semi', 'anti') and isinstance(k, str) and k.startswith('?'):
                    # the hash/merge join executors of these types require the residual condition to be `true`
                    self.map[k] = 'true'
                else:
                    self._expr(k, visible(lsch) + visible(rsch) + list(outer), outer, 'B')
            elif kind == 'exprlist':
                self._list(k, 'exprlist', visible(lsch) + list(outer), lsch)
            elif kind == 'keylist':
                self._list(k, 'keylist', visible(lsch) + list(outer), lsch)
            elif kind == 'agglist':
                self._list(k, 'agglist', visible(lsch) + list(outer), lsch)
            elif kind == 'orderkeys':
                self._list(k, 'orderkeys', visible(lsch), lsch)
            elif kind == 'lkeys':
                self._list(k, 'lkeys', visible(lsch) + list(outer), lsch)
            elif kind == 'rkeys':
                self._list(k, 'rkeys', visible(rsch) + list(outer), rsch)
            elif kind == 'count':
                if isinstance(k, str) and k.startswith('?'):
                    lo = self.choice['limoff']
                    self.map[k] = lo[0] if k == '?limit' else lo[1]
            elif kind == 'table':
                if isinstance(k, str) and k.startswith('?'):
                    if '?table' not in self.map:
                        i = self.next_table
                        self.next_table += 1
                        if i >= NTABLES:
                            raise CannotInstantiate('no table left')
                        self.scan_table = i
                        self.map['?table'] = '$%d' % i
            elif kind == 'collist':
                if isinstance(k, str) and k.startswith('?'):
                    self.map[k] = ['list'] + table_schema(self.scan_table)
            elif kind == 'overlist':
                raise CannotInstantiate('window functions are outside the encoded fragment')
        # schema of this node
        inst = subst(p, self._final_map())
        try:
            return schema_of(inst)
        except CannotInstantiate:
            raise

    def _list(self, k, kind, scope, child_schema):
        c = [produced(s) for s in child_schema]
        c0 = c[0] if c else None
        c1 = c[1] if len(c) > 1 else c0
        if isinstance(k, str) and k.startswith('?'):
            if k in self.map:
                return
            name = k[1:]
            for a in self._cond_args('schema_is_eq'):
                if a[0] == k:
                    self.map[k] = ['list'] + [parse(s) for s in child_schema]
                    return
            if kind == 'exprlist':
                cols = self._restrict(k, scope)
                if self.choice.get('pjscope') == 'narrow':
                    cols = cols[:1]
                if self.choice.get('pjscope') == 'none':
                    self.map[k] = ['list', '7']
                elif self.choice.get('pjscope') == 'second' and len(c) > 1:
                    self.map[k] = ['list', uf(name, 'I', [c[1]])]
                else:
                    self.map[k] = ['list', c0, uf(name, 'I', cols)] if c0 is not None else ['list', uf(name, 'I', cols)]
            elif kind == 'keylist':
                if self.choice.get('gkeys') == 'uf':
                    self.map[k] = ['list', uf(name, 'I', self._restrict(k, scope))]
                else:
                    self.map[k] = ['list', c0]
            elif kind == 'agglist':
                self.map[k] = AGG_VARIANTS[self.choice.get('aggs', 0)](c0, c1)
            elif kind == 'orderkeys':
                self.map[k] = ORDER_VARIANTS[self.choice.get('okeys', 0)](c0, c1)
            elif kind in ('lkeys', 'rkeys'):
                self.map[k] = ['list', c0]
            return
        if k == 'list':
            return
        if isinstance(k, list) and k[0] == 'list':
            for x in k[1:]:
                if kind == 'orderkeys' and isinstance(x, list) and x[0] in ('<->', '<#>', '<=>'):
                    raise CannotInstantiate('vector distance operators are outside the encoded fragment')
                self._expr(x, scope, [], 'I')
            return
        raise CannotInstantiate('list pattern ' + show(k))

    def _expr(self, e, scope, outer, want):
        if isinstance(e, str):
            if e.startswith('?'):
                if e in self.tab:     # a plan variable in expression position (subquery)
                    return
                for a in self._cond_args('is_primary_key_range'):
                    if a[0] == e and e not in self.map:
                        self.map[e] = RANGE_FORMS[self.choice['range']]('$%d.0' % self.scan_table_guess())
                        return
                self.vkind.setdefault(e, want)
                self._note_scope(e, scope)
            return
        op = e[0]
        if op in ('and', 'or'):
            self._expr(e[1], scope, outer, 'B'), self._expr(e[2], scope, outer, 'B')
        elif op == 'not':
            self._expr(e[1], scope, outer, 'B')
        elif op in ('=', '<>', '>', '<', '>=', '<='):
            self._expr(e[1], scope, outer, 'I'), self._expr(e[2], scope, outer, 'I')
        elif op == 'exists':
            self._plan(e[1], list(scope), True)
        elif op == 'in':
            self._expr(e[1], scope, outer, 'I')
            self._plan(e[2], list(scope), True)
        elif op in ('+', '-', '*', '/'):
            for x in e[1:]:
                self._expr(x, scope, outer, 'I')
        else:
            raise CannotInstantiate('expression operator ' + op)

    def scan_table_guess(self):
        # range rules: the scanned table is table 0 (primary key on column 0)
        self.scan_table = 0
        self.next_table = max(self.next_table, 1)
        self.map['?table'] = '$0'
        return 0


def ddl(allpk=False):
    """Schema the instances live in: t0 has a primary key on c0 (range / order rules need one); the `allpk` variant
    gives every table one (rules whose premise is `sorted by primary key` on both inputs)."""
    if allpk:
        return ['create table t%d(c0 int primary key, c1 int)' % i for i in range(NTABLES)]
    return ['create table t0(c0 int primary key, c1 int)', 'create table t1(c0 int, c1 int)', 'create table t2(c0 int, c1 int)']


def tables_for_enc(allpk=False):
    t = {str(i): [('$%d.%d' % (i, c), 'I', True) for c in range(TABLE_COLS)] for i in range(NTABLES)}
    for i in range(NTABLES if allpk else 1):
        t[str(i)][0] = ('$%d.0' % i, 'I', False, True)      # primary key columns are NOT NULL
    return t
