"""C12 ORDER BY, LIMIT and OFFSET are honoured on every storage layout -- the planner's half."""
import itertools, json, re
from vlib.common import Report
from .rules_extract import load_rules
from . import rules_check, query_layer, corpus

ORDER_RULE = re.compile(r'\((order|topn|limit|mergejoin|sortagg) ')


def family(thorough):
    """Ordered / limited single-table queries over tables with and without a primary key."""
    ddl = corpus.schema_ddl()
    qs = []
    tabs = {'t': ['a', 'b', 'c'], 'u': ['x', 'y'], 'w': ['p', 'q']}
    lims = [None, 0, 1, 2, 5] if thorough else [None, 1, 2]
    offs = [None, 0, 1, 3] if thorough else [None, 1, 3]
    for t, cols in tabs.items():
        keysets = [[(cols[0], False)], [(cols[0], True)], [(cols[1], False)], [(cols[1], True), (cols[0], False)]]
        if thorough:
            keysets += [[(cols[1], False), (cols[0], True)], [(cols[0], False), (cols[1], True)]]
        for ks in keysets:
            for where in ([None, '%s > 0' % cols[1]] if thorough else [None]):
                for l, o in itertools.product(lims, offs):
                    sel = ', '.join(cols)
                    q = 'SELECT %s FROM %s' % (sel, t)
                    if where:
                        q += ' WHERE ' + where
                    q += ' ORDER BY ' + ', '.join(c + (' DESC' if d else '') for c, d in ks)
                    if l is not None:
                        q += ' LIMIT %d' % l
                    if o is not None:
                        q += ' OFFSET %d' % o
                    qs.append(q)
        # unordered LIMIT/OFFSET: cardinality and containment
        for l, o in itertools.product([0, 1, 2], [None, 1, 2]):
            qs.append('SELECT %s FROM %s LIMIT %d' % (', '.join(cols), t, l) + (' OFFSET %d' % o if o is not None else ''))
        # grouped and ordered
        qs.append('SELECT %s, count(*) FROM %s GROUP BY %s ORDER BY %s' % (cols[0], t, cols[0], cols[0]))
        qs.append('SELECT %s, sum(%s) FROM %s GROUP BY %s ORDER BY %s DESC LIMIT 2' % (cols[1], cols[0], t, cols[1], cols[1]))
    # an ORDER BY over input that is already ordered: by the same keys, by a prefix of them, by more keys, in the other direction
    for t, cols in tabs.items():
        a, b = cols[0], cols[1]
        for inner, outer in [(a, '%s, %s' % (a, b)), (a, '%s, %s DESC' % (a, b)), ('%s, %s' % (a, b), a), (a, a), (a, a + ' DESC'), (a + ' DESC', a), (b, '%s, %s' % (a, b)),
                             ('%s DESC' % a, '%s DESC, %s' % (a, b))]:
            qs.append('SELECT %s, %s FROM (SELECT %s, %s FROM %s ORDER BY %s) ORDER BY %s' % (a, b, a, b, t, inner, outer))
        qs.append('SELECT %s, count(*) FROM (SELECT %s, %s FROM %s ORDER BY %s) GROUP BY %s, %s ORDER BY %s' % (a, a, b, t, a, a, b, a) if False else
                  'SELECT %s, %s, count(*) FROM (SELECT %s, %s FROM %s ORDER BY %s) GROUP BY %s, %s' % (a, b, a, b, t, a, a, b))
    # joins whose inputs are already ordered (a sorted derived table; on disk also a primary-key scan), with ORDER BY / GROUP BY above
    for jt in ('INNER', 'LEFT', 'RIGHT', 'FULL'):
        qs += ['SELECT a, x, y FROM t %s JOIN (SELECT x, y FROM u ORDER BY x) ON a = x ORDER BY x' % jt,
               'SELECT a, x, y FROM (SELECT x, y FROM u ORDER BY x) %s JOIN t ON a = x ORDER BY x' % jt,
               'SELECT y, count(*) FROM t %s JOIN (SELECT x, y FROM u ORDER BY y) ON a = x GROUP BY y' % jt,
               'SELECT u.x, t.a FROM u %s JOIN t ON u.x = t.a ORDER BY t.a' % jt,
               'SELECT t.a, count(*) FROM u %s JOIN t ON u.x = t.a GROUP BY t.a' % jt,
               'SELECT t.a, w.p FROM t %s JOIN w ON t.b = w.p ORDER BY w.p' % jt]
    # merge joins whose right input is ordered by more than the join key, left input with repeated keys
    for jt in ('INNER', 'RIGHT'):
        qs += ['SELECT b, x, y FROM (SELECT a, b FROM t ORDER BY b) %s JOIN (SELECT x, y FROM u ORDER BY x, y) ON b = x ORDER BY x, y' % jt,
               'SELECT q, x, y FROM (SELECT p, q FROM w ORDER BY q) %s JOIN (SELECT x, y FROM u ORDER BY x, y DESC) ON q = x ORDER BY x, y DESC' % jt]
    # joins on the keys (merge join candidates) with an ORDER BY
    qs += ['SELECT t.a, w.p FROM t INNER JOIN w ON t.a = w.p ORDER BY t.a',
           'SELECT t.a, w.q FROM t LEFT JOIN w ON t.a = w.p ORDER BY t.a DESC LIMIT 2',
           'SELECT t.a, u.y FROM t INNER JOIN u ON t.a = u.x ORDER BY t.a, u.y',
           'SELECT t.a, w.p FROM t INNER JOIN w ON t.a = w.p']
    return [('family:order-limit', ddl, qs)]


def main(tier, only=None):
    rep = Report('C12', 'translation_validation', './bin/check C12 --tier ' + tier)
    thorough = tier == 'thorough'
    rules, _, inv = load_rules()
    K = 4 if thorough else 3
    rep.cov['functions_encoded'] = ['order / limit / top-N / merge-join / sort-agg rewrite rules via Optimizer::verif_apply_rule',
                                    'rules::order::analyze_order + order_rules() as exercised by Optimizer::optimize on ordered / limited queries (memory and disk configurations)']
    rep.cov['trusted_base'] = ['relsmt/sem.py: sort = logical sequence by keys (NULL first, as DataValue::cmp), LIMIT/OFFSET = positions in that sequence, merge join simulated step by step on unsorted input, sort aggregation groups runs',
                               'storage contract probed on the real disk engine: does a scan that includes the primary key return rows in key order', 'z3']
    rep.assumptions = ['K rows per table', 'sort keys totally order the rows wherever LIMIT cuts a sorted relation (tie-breaking unspecified)', 'integers within +-64']
    sel = lambda r: bool(ORDER_RULE.search(r.lhs + ' ' + (r.rhs or r.applier[1]))) and (not only or only in r.name)
    rules_check.run(rep, rules, K, thorough, select=sel)
    is_ord = lambda sql: bool(re.search(r'\border\s+by\b|\blimit\b|\boffset\b', sql, re.I))
    query_layer.run(rep, 'C12', K, thorough, 1500 if thorough else 200, only=only, include_repo=True, select_sql=is_ord, extra_groups=family(thorough))
    if not only:
        from . import conform
        conform.run(rep, 'C12', thorough, families=('topn',))
        ordered_scan_probes(rep, thorough)
    return rep.finish()


def ordered_scan_probes(rep, thorough):
    """Concrete probe of the storage contract the planner relies on ("a disk scan that includes the primary key returns
    rows in key order", the row-set merge is async code outside the solver engines): the key column in every position of
    a three-column table, 1-4 row-sets with interleaved keys, every select list that contains the key; ORDER BY key (the
    planner drops the sort), DESC, with LIMIT / OFFSET, and GROUP BY key ORDER BY key, each against the order computed here."""
    import itertools, shutil
    from vlib.common import rl, scratch_dir
    n = ok = 0
    seen = set()
    for pkpos in (0, 1, 2):
        cols = ['c0', 'c1', 'c2']
        ddl = 'create table t(%s)' % ', '.join('%s int%s' % (c, ' primary key' if i == pkpos else '') for i, c in enumerate(cols))
        key = cols[pkpos]
        for nsets in ((1, 2, 3, 4) if thorough else (2, 3)):
            keys = list(range(12))
            parts = [keys[i::nsets] for i in range(nsets)]
            rows = {k: [k if i == pkpos else (100 - k if i == (pkpos + 1) % 3 else k % 4) for i in range(3)] for k in keys}
            stmts = [ddl, 'create table zz_verif_dummy(z int)'] + ['insert into t values ' + ', '.join('(%s)' % ', '.join(map(str, rows[k])) for k in p_) for p_ in parts]
            stmts.append('set mock_rowcount_zz_verif_dummy = 1')
            qs = []
            lists = [l for r_ in (1, 2, 3) for l in itertools.permutations(cols, r_) if key in l]
            for sel in lists:
                ix = [cols.index(c) for c in sel]
                full = [[str(rows[k][i]) for i in ix] for k in sorted(keys)]
                qs.append(('select %s from t order by %s' % (', '.join(sel), key), full))
                qs.append(('select %s from t order by %s desc' % (', '.join(sel), key), full[::-1]))
                qs.append(('select %s from t order by %s limit 4 offset 3' % (', '.join(sel), key), full[3:7]))
            cnt = [[str(k), '1'] for k in sorted(keys)]
            qs.append(('select %s, count(*) from t group by %s order by %s' % (key, key, key), cnt))
            d = scratch_dir('c12scan')
            out, rc, err = rl('sql', {'engine': 'disk', 'dir': d, 'block': 4096, 'rowset': 1 << 20, 'stmts': stmts + [q for q, _ in qs]}, timeout=300)
            shutil.rmtree(d, ignore_errors=True)
            res = {o['sql']: o for o in out if 'sql' in o}
            for q, exp in qs:
                o = res.get(q)
                if o is None:
                    rep.fail_inconclusive('ordered-scan probe did not run: %s' % err[-200:])
                    break
                n += 1
                got = o['rows'] if o.get('ok') and not o.get('panicked') else ('panic' if o.get('panicked') else o.get('err'))
                if got == exp:
                    ok += 1
                    continue
                k_ = 'storage:ordered-scan:key-column-%d:%s' % (pkpos, 'key-only' if q.startswith('select %s from' % key) else 'with-other-columns')
                if k_ in seen:
                    continue
                seen.add(k_)
                what = 'with the primary key in column %d and %d row-sets on disk, `%s` returns %s, expected %s' % (pkpos, nsets, q, json.dumps(got)[:160], json.dumps(exp)[:160])
                outc = rep.counterexample(k_, what[:600], {'stmts': stmts + [q], 'got': got, 'expected': exp}, True)
                rep.obligation(outc == 'known')
    # (a) a key range pushed into the scan must not cost the order: WHERE on the key + ORDER BY key over several row-sets;
    # (b) VARCHAR keys of different lengths: the storage order must be the value order ('aa' < 'b'), not a shorter-first one
    for kind in ('int-range', 'varchar'):
        if kind == 'int-range':
            ddl = 'create table t(k int primary key, v int)'
            keys = list(range(14))
            lit = str
        else:
            ddl = 'create table t(k varchar primary key, v int)'
            keys = sorted(['b', 'aa', 'abc', 'c', 'ab', 'a', 'ba', 'bb', 'aaa', 'z', 'az', 'b0'])
            lit = lambda x: "'%s'" % x
        for nsets in (2, 3):
            parts = [keys[i::nsets] for i in range(nsets)]
            stmts = [ddl, 'create table zz_verif_dummy(z int)'] + ['insert into t values ' + ', '.join('(%s, %d)' % (lit(k), i) for i, k in enumerate(p_)) for p_ in parts]
            stmts.append('set mock_rowcount_zz_verif_dummy = 1')
            qs = []
            srt = sorted(keys)
            preds = [('k > %s' % lit(srt[3]), lambda k: k > srt[3]), ('k >= %s and k < %s' % (lit(srt[2]), lit(srt[-2])), lambda k: srt[2] <= k < srt[-2]), ('k <= %s' % lit(srt[-3]), lambda k: k <= srt[-3])]
            for ptxt, pf in preds:
                exp = [[str(k)] for k in srt if pf(k)]
                qs.append(('select k from t where %s order by k' % ptxt, exp))
                qs.append(('select k from t where %s order by k desc' % ptxt, exp[::-1]))
            qs.append(('select k from t order by k', [[str(k)] for k in srt]))
            qs.append(('select k, count(*) from t group by k order by k', [[str(k), '1'] for k in srt]))
            d = scratch_dir('c12scan')
            out, rc, err = rl('sql', {'engine': 'disk', 'dir': d, 'block': 4096, 'rowset': 1 << 20, 'stmts': stmts + [q for q, _ in qs]}, timeout=300)
            shutil.rmtree(d, ignore_errors=True)
            res = {o['sql']: o for o in out if 'sql' in o}
            for q, exp in qs:
                o = res.get(q)
                if o is None:
                    rep.fail_inconclusive('ordered-scan probe did not run: %s' % err[-200:])
                    break
                n += 1
                got = o['rows'] if o.get('ok') and not o.get('panicked') else ('panic' if o.get('panicked') else o.get('err'))
                if got == exp:
                    ok += 1
                    continue
                k_ = 'storage:ordered-scan:%s:%s' % (kind, 'with-key-range' if ' where ' in q else 'whole-table')
                if k_ in seen:
                    continue
                seen.add(k_)
                what = 'with a %s primary key and %d row-sets on disk, `%s` returns %s, expected %s' % ('VARCHAR' if kind == 'varchar' else 'INT', nsets, q, json.dumps(got)[:160], json.dumps(exp)[:160])
                outc = rep.counterexample(k_, what[:600], {'stmts': stmts + [q], 'got': got, 'expected': exp}, True)
                rep.obligation(outc == 'known')
    if n and n == ok:
        rep.obligation(True)
    rep.cov['ordered_scan_probes'] = {'queries_compared': n, 'agreeing': ok, 'note': 'key column in every position, 2-3 (thorough 1-4) interleaved row-sets, every select list holding the key; concrete probes of the storage contract'}


def replay(path):
    d = json.load(open(path))
    print(json.dumps(d['replay'], indent=1)[:6000])
    return 0
