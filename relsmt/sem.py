"""Engine R core: risinglight's plan language over a symbolic bounded database, in z3.

A value is V(t, v, n): type tag ('I' int, 'B' bool, 'S' string-as-ordered-int, None = untyped NULL), z3 term, is-NULL flag.
A relation is Rel(schema, rows): schema = list of expression keys (the printed s-expression of what each column *is*,
exactly how the executor resolves column references: `resolve_column_index` looks sub-expressions up in the child's
schema by node identity, and egg hash-conses, so identity == printed text); rows = list of (present, [V...]) slots.
Slot order is the physical row order.
"""
import re
from z3 import (And, Or, Not, If, Implies, Int, Bool, IntVal, BoolVal, Sum, Distinct, Function, IntSort, BoolSort,
                is_true, is_false, simplify)
from .sexp import show, lst
from .instantiate import decode_uf

INT_RE = re.compile(r'-?\d+$')


class NotEncodable(Exception):
    """Construct outside the encoded fragment: the item is skipped and counted, never silently passed."""


class EnginePanics(Exception):
    """The plan makes the engine panic whatever the data (e.g. an unsupported key type reaches the storage seek)."""


class Unresolved(Exception):
    """A column reference that the operator's input does not produce (the executor would panic)."""


class V:
    __slots__ = ('t', 'v', 'n')

    def __init__(self, t, v, n):
        self.t, self.v, self.n = t, v, n


def bv(b):
    return BoolVal(bool(b))


TRUE = V('B', bv(True), bv(False))
FALSE = V('B', bv(False), bv(False))


def null(t=None):
    return V(t, bv(False) if t == 'B' else IntVal(0), bv(True))


def ival(i):
    return V('I', IntVal(int(i)), bv(False))


def istrue(x):
    return And(x.v, Not(x.n))


def coerce(a, b):
    """Give untyped NULL operands the other operand's type."""
    if a.t is None and b.t is not None:
        a = null(b.t)
    if b.t is None and a.t is not None:
        b = null(a.t)
    if a.t is None and b.t is None:
        a, b = null('I'), null('I')
    return a, b


def as_int(x):
    """Comparable integer image of a value's payload (bools as 0/1)."""
    return If(x.v, 1, 0) if x.t == 'B' else x.v


def dveq(a, b):
    """DataValue equality (grouping, hash keys, bag comparison): NULL == NULL."""
    a, b = coerce(a, b)
    if a.t != b.t:
        return And(a.n, b.n)
    return Or(And(a.n, b.n), And(Not(a.n), Not(b.n), a.v == b.v))


def dvlt(a, b):
    """DataValue::cmp == Less for same-typed values: NULL sorts first."""
    a, b = coerce(a, b)
    return Or(And(a.n, Not(b.n)), And(Not(a.n), Not(b.n), as_int(a) < as_int(b)))


def and3(a, b):
    a, b = coerce(a, b)
    isf = Or(And(Not(a.n), Not(a.v)), And(Not(b.n), Not(b.v)))
    n = And(Not(isf), Or(a.n, b.n))
    return V('B', And(Not(isf), Not(n)), n)


def or3(a, b):
    a, b = coerce(a, b)
    ist = Or(istrue(a), istrue(b))
    n = And(Not(ist), Or(a.n, b.n))
    return V('B', ist, n)


def not3(a):
    if a.t is None:
        a = null('B')
    return V('B', And(Not(a.v), Not(a.n)), a.n)


def tdiv(a, b):
    """Rust/SQL truncating integer division (z3 `/` on Int is floor-ish/euclidean)."""
    aa, ab = If(a >= 0, a, -a), If(b >= 0, b, -b)
    q = aa / If(ab == 0, 1, ab)
    return If((a >= 0) == (b >= 0), q, -q)


def trem(a, b):
    return a - tdiv(a, b) * b


CMP = {'=': lambda x, y: x == y, '<>': lambda x, y: x != y, '>': lambda x, y: x > y, '<': lambda x, y: x < y,
       '>=': lambda x, y: x >= y, '<=': lambda x, y: x <= y}
JOIN_TYPES = ['inner', 'left_outer', 'right_outer', 'full_outer', 'semi', 'anti']
AGG_OPS = ('sum', 'count', 'min', 'max', 'count-distinct', 'first', 'last', 'avg')


def sqltype(name):
    n = name.upper()
    if n in ('INT', 'INTEGER', 'BIGINT', 'SMALLINT', 'INT2', 'INT4', 'INT8'):
        return 'I'
    if n in ('BOOLEAN', 'BOOL'):
        return 'B'
    if n.startswith(('VARCHAR', 'STRING', 'TEXT', 'CHAR')):
        return 'S'
    raise NotEncodable('type ' + name)


class Rel:
    def __init__(self, schema, rows, types=None, okeys=None):
        self.schema = schema
        self.rows = rows
        self.types = types  # list of 'I'/'B'/'S'/None per column (static)
        self.okeys = okeys  # per slot: [(V, desc), ...] sort keys this relation's slot sequence is ordered by, or None

    def width(self):
        return len(self.schema)


class Enc:
    """One encoding context: symbolic tables + constraints + fresh symbols."""

    def __init__(self, tables, K=3, bound=64, contracts=None):
        """tables: {table_id(str): [(colname_key, type), ...]}; every table gets K row slots."""
        self.K = K
        self.cons = []          # constraints defining fresh symbols (sort permutations, min/max witnesses, bounds)
        self.requirements = []  # (description, z3 bool) physical-operator preconditions that must hold
        self.fresh = 0
        self.bound = bound
        self.tabs = {}
        self.tabtypes = {}
        self.ufs = {}
        self.uf_apps = {}
        self.syms = {}
        self.strlits = {}
        self.contracts = dict(hashjoin_null_eq=True, semijoin_null_eq=True, mergejoin_null_eq=True, count_distinct_counts_null=False)
        if contracts:
            self.contracts.update(contracts)
        self.engine = 'mem'
        self.no_ties = False   # (kept for callers; ties are excluded exactly where a LIMIT cuts a sorted relation)
        self.scan_ranges = None  # optional {filter_text: range dict} -> scan filters read as KeyRanges (C13)
        for t, cols in tables.items():
            rows = []
            for i in range(K):
                vals = []
                for c, col in enumerate(cols):
                    ck, ty = col[0], col[1]
                    n = Bool('t%s_r%d_c%d_n' % (t, i, c)) if (len(col) < 3 or col[2]) else bv(False)
                    if ty == 'B':
                        v = Bool('t%s_r%d_c%d_v' % (t, i, c))
                    else:
                        v = Int('t%s_r%d_c%d_v' % (t, i, c))
                        self.cons += [v >= -bound, v <= bound]
                    vals.append(V(ty, v, n))
                rows.append((Bool('t%s_r%d_p' % (t, i)), vals))
            self.tabs[t] = rows
            self.tabtypes[t] = cols

    # ------------------------------------------------------------------ helpers
    def new(self, prefix):
        self.fresh += 1
        return '%s!%d' % (prefix, self.fresh)

    def strlit(self, s):
        if s not in self.strlits:
            self.strlits[s] = None
        return s

    def assign_strlits(self):
        """Order-preserving integer images of the string literals seen (spaced so that values fit between)."""
        lits = sorted(self.strlits)
        gap = max(4, (2 * self.bound) // (len(lits) + 1))
        for i, s in enumerate(lits):
            self.strlits[s] = -self.bound + gap * (i + 1)
        return dict(self.strlits)

    def const(self, tok):
        if tok == 'true':
            return TRUE
        if tok == 'false':
            return FALSE
        if tok == 'null':
            return null(None)
        if INT_RE.match(tok):
            return ival(tok)
        if tok.startswith("'") and tok.endswith("'"):
            s = self.strlit(tok[1:-1])
            # literal images are fixed lazily: a z3 Int constant constrained after the walk
            return V('S', Int('strlit!' + s.encode().hex()), bv(False))
        raise NotEncodable('atom ' + tok)

    def strlit_constraints(self):
        m = self.assign_strlits()
        return [Int('strlit!' + s.encode().hex()) == v for s, v in m.items()]

    def uf(self, name, rett, args):
        """Uninterpreted nullable function of nullable arguments (value canonicalised under NULL)."""
        sig = []
        zargs = []
        for a in args:
            if a.t is None:
                a = null('I')
            if a.t == 'B':
                sig += [BoolSort(), BoolSort()]
                zargs += [And(a.v, Not(a.n)), a.n]
            else:
                sig += [IntSort(), BoolSort()]
                zargs += [If(a.n, 0, a.v), a.n]
        key = (name, rett, tuple(str(s) for s in sig))
        if key not in self.ufs:
            if zargs:
                fv = Function('uf_%s_v' % name, *(sig + [BoolSort() if rett == 'B' else IntSort()]))
                fn = Function('uf_%s_n' % name, *(sig + [BoolSort()]))
            else:
                fv = Bool('uf_%s_v0' % name) if rett == 'B' else Int('uf_%s_v0' % name)
                fn = Bool('uf_%s_n0' % name)
            self.ufs[key] = (fv, fn)
        fv, fn = self.ufs[key]
        self.uf_apps.setdefault(key, []).append(zargs)
        v, n = (fv(*zargs), fn(*zargs)) if zargs else (fv, fn)
        if rett != 'B':
            self.cons += [v >= -self.bound, v <= self.bound]
        return V(rett, v, n)

    def sym(self, name, t, nullable=False):
        if name not in self.syms:
            v = Bool('sym_' + name) if t == 'B' else Int('sym_' + name)
            n = Bool('sym_%s_n' % name) if nullable else bv(False)
            self.syms[name] = V(t, v, n)
            if t != 'B':
                self.cons += [v >= -self.bound, v <= self.bound]
        return self.syms[name]

    # ------------------------------------------------------------------ expressions
    def expr(self, e, rel, row, outer=()):
        """Evaluate expression e on one row of rel. outer = tuple of (rel, row) for correlated references."""
        k = show(e)
        if rel is not None and k in rel.schema:
            return row[rel.schema.index(k)]
        for orel, orow in outer:
            if k in orel.schema:
                return orow[orel.schema.index(k)]
        d = decode_uf(e)
        if d is not None:
            return self.uf(d[0], d[1], [self.expr(a, rel, row, outer) for a in d[2]])
        if isinstance(e, str):
            if e.startswith('$') or e.startswith('#'):
                raise Unresolved(e)
            if e.startswith('?'):
                raise NotEncodable('free pattern variable ' + e)
            return self.const(e)
        op = e[0]
        A = lambda i: self.expr(e[i], rel, row, outer)
        if op == 'ref':
            return A(1)
        if op == 'uf':      # (uf name type arg...)
            return self.uf(e[1], e[2], [A(i) for i in range(3, len(e))])
        if op == 'sym':     # (sym name type [nullable])
            return self.sym(e[1], e[2], len(e) > 3)
        if op == '-' and len(e) == 2:
            a = A(1)
            if a.t is None:
                a = null('I')
            self._num(a)
            return V('I', -a.v, a.n)
        if op in ('+', '-', '*', '/', '%'):
            a, b = coerce(A(1), A(2))
            self._num(a), self._num(b)
            n = Or(a.n, b.n)
            if op == '+':
                return V('I', a.v + b.v, n)
            if op == '-':
                return V('I', a.v - b.v, n)
            if op == '*':
                return V('I', a.v * b.v, n)
            if op == '/':
                # ArrayImpl::div: a zero divisor makes the row NULL (safen_dividend), truncating otherwise
                return V('I', tdiv(a.v, b.v), Or(n, b.v == 0))
            # rem: no safen_dividend in the engine (x % 0 panics): outside the fragment unless divisor is a non-zero literal
            if not (isinstance(e[2], str) and INT_RE.match(e[2]) and int(e[2]) != 0):
                raise NotEncodable('% with a non-literal divisor')
            return V('I', trem(a.v, b.v), n)
        if op in CMP:
            a, b = coerce(A(1), A(2))
            if a.t != b.t:
                raise NotEncodable('comparison between %s and %s' % (a.t, b.t))
            return V('B', CMP[op](as_int(a), as_int(b)), Or(a.n, b.n))
        if op == 'and':
            return and3(self._bool(A(1)), self._bool(A(2)))
        if op == 'or':
            return or3(self._bool(A(1)), self._bool(A(2)))
        if op == 'not':
            return not3(self._bool(A(1)))
        if op == 'isnull':
            return V('B', A(1).n, bv(False))
        if op == 'if':
            c, x, y = self._bool(A(1)), A(2), A(3)
            x, y = coerce(x, y)
            if x.t != y.t:
                raise NotEncodable('if branches of different types')
            take = istrue(c)   # SQL CASE: a NULL condition takes the ELSE branch
            return V(x.t, If(take, x.v, y.v), If(take, x.n, y.n))
        if op == 'cast':
            t = sqltype(e[1]) if isinstance(e[1], str) else None
            if t is None:
                raise NotEncodable('cast to ' + show(e[1]))
            a = A(2)
            if a.t is None:
                return null(t)
            if a.t == t:
                return a
            if a.t == 'I' and t == 'B':
                return V('B', a.v != 0, a.n)
            if a.t == 'B' and t == 'I':
                return V('I', If(a.v, 1, 0), a.n)
            raise NotEncodable('cast %s -> %s' % (a.t, t))
        if op == 'in':
            x = A(1)
            if isinstance(e[2], list) and e[2] and e[2][0] == 'list' or e[2] == 'list':
                r = None
                for item in lst(e[2]):
                    y = self.expr(item, rel, row, outer)
                    a, b = coerce(x, y)
                    c = V('B', as_int(a) == as_int(b), Or(a.n, b.n))
                    r = c if r is None else or3(r, c)
                return r if r is not None else FALSE
            sub = self.plan(e[2], outer=((rel, row),) + tuple(outer) if rel is not None else tuple(outer))
            anyt, anyn = [], []
            for p, srow in sub.rows:
                a, b = coerce(x, srow[0])
                anyt.append(And(p, Not(a.n), Not(b.n), as_int(a) == as_int(b)))
                anyn.append(And(p, Or(a.n, b.n)))
            t = Or(anyt) if anyt else bv(False)
            n = And(Not(t), Or(anyn) if anyn else bv(False))
            return V('B', t, n)
        if op == 'exists':
            sub = self.plan(e[1], outer=((rel, row),) + tuple(outer) if rel is not None else tuple(outer))
            return V('B', Or([p for p, _ in sub.rows]) if sub.rows else bv(False), bv(False))
        if op == 'max1row':
            raise NotEncodable('max1row as expression')
        if op == 'desc':
            return A(1)
        raise NotEncodable('expr ' + op)

    def _bool(self, a):
        if a.t is None:
            return null('B')
        if a.t != 'B':
            raise NotEncodable('non-boolean used as boolean')
        return a

    def _num(self, a):
        if a.t != 'I':
            raise NotEncodable('arithmetic on ' + str(a.t))

    # ------------------------------------------------------------------ plans
    def plan(self, p, outer=()):
        if isinstance(p, str):
            raise NotEncodable('plan atom ' + p)
        op = p[0]
        m = getattr(self, 'p_' + op.replace('-', '_'), None)
        if m is None:
            raise NotEncodable('plan ' + op)
        return m(p, outer)

    def p_scan(self, p, outer):
        t = p[1].lstrip('$')
        if t not in self.tabs:
            raise NotEncodable('scan of unknown table ' + p[1])
        cols = lst(p[2])
        names = [col[0] for col in self.tabtypes[t]]
        idx = []
        for c in cols:
            # a second occurrence of a table in one query (self-join) prints its columns as "$t.c(k)": same stored column
            base = re.sub(r'\(\d+\)$', '', c.strip('"')) if isinstance(c, str) else c
            if base not in names:
                raise NotEncodable('scan column ' + show(c))
            idx.append(names.index(base))
        types = [self.tabtypes[t][i][1] for i in idx]
        r = Rel(list(cols), [(pr, [vals[i] for i in idx]) for pr, vals in self.tabs[t]], types)
        pk = [i for i, col in enumerate(self.tabtypes[t]) if len(col) > 3 and col[3]]
        if self.engine == 'disk' and self.contracts.get('disk_scan_sorted_by_pk') and pk and all(i in idx for i in pk):
            # storage contract (probed): a disk scan that includes the primary key returns rows in key order
            r.okeys = [[(vals[i], False) for i in pk] for pr, vals in self.tabs[t]]
        f = p[3]
        if f not in ('true', 'null'):
            if self.scan_ranges is not None:
                keeps = self.range_keep(show(f), r, t)
                if self.contracts.get('scan_filter_reapplied'):
                    # executor contract (probed): the pushed predicate is also evaluated on the rows storage returns
                    keeps = [And(k, istrue(self._bool(self.expr(f, r, row, outer)))) for k, (pr, row) in zip(keeps, r.rows)]
            else:
                keeps = [istrue(self._bool(self.expr(f, r, row, outer))) for pr, row in r.rows]
            r = Rel(r.schema, [(And(pr, k), row) for (pr, row), k in zip(r.rows, keeps)], types, r.okeys)
        return r

    def range_keep(self, ftext, r, t):
        """Rows storage returns for a pushed-down filter, per the planner->storage contract as read from
        executor/mod.rs (Scan arm), secondary/transaction.rs (scan_inner), rowset/disk_rowset.rs (start_rowid) and
        rowset/rowset_iterator.rs (next_batch_inner):
          * the executor turns the filter into a KeyRange (given here by the driver, from the real analysis);
          * a start bound that is not an Int32 makes `start_rowid` panic;
          * inside a row-set (rows of one INSERT, stored in primary-key order) the iterator keeps the positions from the
            first row whose *first scanned column* reaches the start bound up to the first row that passes the end
            bound, comparing with DataValue's derived ordering (variant first, NULL smallest).
        Returns one keep-condition per slot."""
        rg = self.scan_ranges.get(ftext, 'MISSING')
        if rg == 'MISSING':
            raise NotEncodable('no KeyRange reported for scan filter ' + ftext)
        if rg is None:
            return [bv(True) for _ in r.rows]
        coltype = r.types[0]

        def bound_val(txt):
            # "Included(Int32(3))" / "Excluded(Null)" / "Unbounded"
            m = re.match(r'(Included|Excluded)\((.*)\)$', txt)
            if not m:
                return None
            kind, val = m.groups()
            mm = re.match(r'(\w+)(?:\((.*)\))?$', val)
            return kind, mm.group(1), mm.group(2)
        start, end = bound_val(rg['start']), bound_val(rg['end'])
        if start and start[1] != 'Int32':
            raise EnginePanics('range scan with a %s start key: DiskRowset::start_rowid supports Int32 only' % start[1])
        VARIANT_RANK = ['Null', 'Bool', 'Int16', 'Int32', 'Int64', 'Float64', 'String']
        colv = (getattr(self, 'scan_col_variant', None) or {}).get((t, r.schema[0])) or {'I': 'Int32', 'B': 'Bool', 'S': 'String'}[coltype]

        def cmp_to(x0, variant, payload):
            """(lt, eq) of a stored value vs the bound under the derived Ord of DataValue."""
            if variant == 'Null':
                return bv(False), x0.n
            if variant == colv:
                if variant == 'Bool':
                    c = IntVal(1 if payload == 'true' else 0)
                elif variant == 'String':
                    c = self.const("'" + payload.strip('"') + "'").v
                else:
                    c = IntVal(int(payload))
                x = as_int(x0)
                return Or(x0.n, x < c), And(Not(x0.n), x == c)
            less = VARIANT_RANK.index(colv) < VARIANT_RANK.index(variant)
            return Or(x0.n, bv(less)), bv(False)
        # the table's slots are one row-set: stored in primary-key order
        pk = [i for i, col in enumerate(self.tabtypes[t]) if len(col) > 3 and col[3]]
        if pk:
            base = self.tabs[t]
            for i in range(len(base)):
                for j in range(i + 1, len(base)):
                    ki = [(base[i][1][c], False) for c in pk]
                    kj = [(base[j][1][c], False) for c in pk]
                    self.cons.append(Implies(And(base[i][0], base[j][0]), self._lex_le(ki, kj)))
        keeps = []
        reached, passed = bv(False), bv(False)
        for pr, row in r.rows:
            x0 = row[0]
            if start:
                lt, eq = cmp_to(x0, start[1], start[2])
                at = Not(lt) if start[0] == 'Included' else And(Not(lt), Not(eq))
            else:
                at = bv(True)
            if end:
                lt, eq = cmp_to(x0, end[1], end[2])
                over = And(Not(lt), Not(eq)) if end[0] == 'Included' else Not(lt)
            else:
                over = bv(False)
            reached = Or(reached, And(pr, at))
            passed = Or(passed, And(pr, over))
            keeps.append(And(reached, Not(passed)))
        return keeps

    def p_values(self, p, outer):
        rows = [lst(r) for r in p[1:]]
        if not rows:
            raise NotEncodable('empty values')
        out = []
        for r in rows:
            out.append((bv(True), [self.expr(x, None, None, outer) for x in r]))
        w = len(rows[0])
        types = [next((row[1][c].t for row in out if row[1][c].t), None) for c in range(w)]
        out = [(p_, [v if v.t else null(types[c]) for c, v in enumerate(vs)]) for p_, vs in out]
        return Rel([show(x) for x in rows[0]], out, types)

    def p_filter(self, p, outer):
        c = self.plan(p[2], outer)
        return Rel(c.schema, [(And(pr, istrue(self._bool(self.expr(p[1], c, row, outer)))), row) for pr, row in c.rows], c.types, c.okeys)

    def p_proj(self, p, outer):
        c = self.plan(p[2], outer)
        es = lst(p[1])
        rows = [(pr, [self.expr(e, c, row, outer) for e in es]) for pr, row in c.rows]
        types = [next((r[1][i].t for r in rows if r[1][i].t), None) for i in range(len(es))]
        return Rel([show(e) for e in es], rows, types, c.okeys)

    def p_empty(self, p, outer):
        c = self.plan(p[1], outer)
        return Rel(c.schema, [(bv(False), row) for pr, row in c.rows], c.types)

    def _join(self, jt, L, R, match):
        """match(i, j, lrow, rrow) -> z3 Bool. Slot layout: K*K pairs (left-major), then left padding, then right padding."""
        nl, nr = len(L.rows), len(R.rows)
        m = {}
        for i, (lp, lr) in enumerate(L.rows):
            for j, (rp, rr) in enumerate(R.rows):
                m[i, j] = And(lp, rp, match(lr, rr))
        nullL = [null(t) for t in (L.types or [None] * L.width())]
        nullR = [null(t) for t in (R.types or [None] * R.width())]
        if jt in ('inner', 'left_outer', 'right_outer', 'full_outer'):
            out = [(m[i, j], L.rows[i][1] + R.rows[j][1]) for i in range(nl) for j in range(nr)]
            if jt in ('left_outer', 'full_outer'):
                for i, (lp, lr) in enumerate(L.rows):
                    out.append((And(lp, Not(Or([m[i, j] for j in range(nr)]) if nr else bv(False))), lr + nullR))
            if jt in ('right_outer', 'full_outer'):
                for j, (rp, rr) in enumerate(R.rows):
                    out.append((And(rp, Not(Or([m[i, j] for i in range(nl)]) if nl else bv(False))), nullL + rr))
            return Rel(L.schema + R.schema, out, (L.types or [None] * L.width()) + (R.types or [None] * R.width()))
        if jt in ('semi', 'anti'):
            ex = lambda i: Or([m[i, j] for j in range(nr)]) if nr else bv(False)
            return Rel(L.schema, [(And(lp, ex(i) if jt == 'semi' else Not(ex(i))), lr) for i, (lp, lr) in enumerate(L.rows)], L.types)
        raise NotEncodable('join type ' + str(jt))

    def p_join(self, p, outer):
        jt, on = p[1], p[2]
        L, R = self.plan(p[3], outer), self.plan(p[4], outer)
        both = Rel(L.schema + R.schema, None)
        return self._join(jt, L, R, lambda lr, rr: istrue(self._bool(self.expr(on, both, lr + rr, outer))))

    def _keyeq(self, a, b, jt, merge=False):
        null_eq = self.contracts['semijoin_null_eq'] if jt in ('semi', 'anti') else self.contracts['mergejoin_null_eq' if merge else 'hashjoin_null_eq']
        if null_eq:
            return dveq(a, b)
        a, b = coerce(a, b)
        return And(Not(a.n), Not(b.n), as_int(a) == as_int(b))

    def p_hashjoin(self, p, outer, merge=False):
        return self._hashjoin_on(p[1], p[2], lst(p[3]), lst(p[4]), self.plan(p[5], outer), self.plan(p[6], outer), outer, merge)

    def _hashjoin_on(self, jt, on, lk, rk, L, R, outer, merge=False):
        both = Rel(L.schema + R.schema, None)

        def match(lr, rr):
            c = [self._keyeq(self.expr(a, L, lr, outer), self.expr(b, R, rr, outer), jt, merge) for a, b in zip(lk, rk)]
            if on != 'true':
                c.append(istrue(self._bool(self.expr(on, both, lr + rr, outer))))
            return And(c) if c else bv(True)
        return self._join(jt, L, R, match)

    def p_mergejoin(self, p, outer):
        """MergeJoinExecutor. On inputs that come out of a sort the contract is: same result as the hash join provided
        the sort orders by the join keys.  On inputs in physical order the executor's loop is simulated step by step
        (runs of equal consecutive keys, two cursors), so that what it does on *unsorted* input is part of the model."""
        jt, lk, rk = p[1], lst(p[3]), lst(p[4])
        if jt not in ('inner', 'left_outer', 'right_outer', 'full_outer') or p[2] != 'true':
            raise NotEncodable('mergejoin ' + str(jt))
        L, R = self.plan(p[5], outer), self.plan(p[6], outer)
        if L.okeys is not None or R.okeys is not None:
            self.requirements.append(('mergejoin left input sorted by ' + show(p[3]), self.is_sorted(L, lk, outer)))
            self.requirements.append(('mergejoin right input sorted by ' + show(p[4]), self.is_sorted(R, rk, outer)))
            out = self._hashjoin_on(jt, 'true', lk, rk, L, R, outer, merge=True)
            # rows leave a merge join group by group in merge-key order; inside a group of matching keys the executor loops
            # `for left_row { for right_row }`, unmatched left groups come before unmatched right groups of an equal
            # (NULL-containing) key.  Logical order = (merge key, side, left input order, right input order); slot layout
            # of _join: pairs, then left padding, then right padding.
            kl = [[(self.expr(k, L, row, outer), False) for k in lk] for _, row in L.rows]
            kr = [[(self.expr(k, R, row, outer), False) for k in rk] for _, row in R.rows]
            # position of a row inside its input: the input's own order keys, ties (unspecified after the unstable sort)
            # broken by slot -- slots are interchangeable, so this loses no tie order
            slot = lambda i: [(V('I', IntVal(i), bv(False)), False)]
            pos = lambda rel: [(rel.okeys[i] if rel.okeys is not None else []) + slot(i) for i in range(len(rel.rows))]
            lo, ro = pos(L), pos(R)
            pad = lambda ok: [(null(v.t or 'I'), d) for v, d in ok[0]] if ok else []
            tag = lambda n: [(V('I', IntVal(n), bv(False)), False)]
            ok = [kl[i] + tag(0) + lo[i] + ro[j] for i in range(len(L.rows)) for j in range(len(R.rows))]
            if jt in ('left_outer', 'full_outer'):
                ok += [kl[i] + tag(0) + lo[i] + pad(ro) for i in range(len(L.rows))]
            if jt in ('right_outer', 'full_outer'):
                ok += [kr[j] + tag(1) + pad(lo) + ro[j] for j in range(len(R.rows))]
            out.okeys = ok
            return out
        n, m = len(L.rows), len(R.rows)
        kl = [[self.expr(k, L, row, outer) for k in lk] for _, row in L.rows]
        kr = [[self.expr(k, R, row, outer) for k in rk] for _, row in R.rows]

        def runs(rows, kv):
            cnt = len(rows)
            pr = [r[0] for r in rows]
            same = lambda i, j: And([dveq(a, b) for a, b in zip(kv[i], kv[j])])
            leader = []
            for i in range(cnt):
                cont = [And([pr[h]] + [Not(pr[k]) for k in range(h + 1, i)] + [same(h, i)]) for h in range(i)]
                leader.append(And(pr[i], Not(Or(cont))) if cont else pr[i])

            def member(a, j):
                if j < a:
                    return bv(False)
                return And([pr[j], same(a, j)] + [Implies(pr[k], same(a, k)) for k in range(a + 1, j)])
            nxt = [None] * cnt          # nxt[x] = smallest leader index > x, or cnt
            for x in range(cnt - 1, -1, -1):
                nxt[x] = IntVal(cnt) if x == cnt - 1 else If(leader[x + 1], x + 1, nxt[x + 1])
            first = If(leader[0], 0, nxt[0]) if cnt else IntVal(0)
            return leader, member, nxt, first
        leadL, memL, nxtL, firstL = runs(L.rows, kl)
        leadR, memR, nxtR, firstR = runs(R.rows, kr)

        def sel(x, vals, cnt):
            """vals[x] for symbolic x in 0..cnt-1 (arbitrary when out of range)."""
            r = vals[cnt - 1]
            for i in range(cnt - 2, -1, -1):
                r = If(x == i, vals[i], r)
            return r

        def selkey(x, kv, cnt):
            return [V(kv[0][c].t, sel(x, [kv[i][c].v for i in range(cnt)], cnt), sel(x, [kv[i][c].n for i in range(cnt)], cnt)) for c in range(len(kv[0]))]
        nm = self.new('mj')
        T = n + m
        Lc = [Int('%s_l%d' % (nm, t)) for t in range(T + 1)]
        Rc = [Int('%s_r%d' % (nm, t)) for t in range(T + 1)]
        self.cons += [Lc[0] == firstL, Rc[0] == firstR]
        match_t, advl_t, advr_t = [], [], []
        null_eq = self.contracts['mergejoin_null_eq']
        for t in range(T):
            la, ra = Lc[t] < n, Rc[t] < m
            kL, kR = selkey(Lc[t], kl, n), selkey(Rc[t], kr, m)
            eq = And([dveq(a, b) for a, b in zip(kL, kR)])
            hasnull = Or([a.n for a in kL])
            lt = bv(False)
            for a, b in reversed(list(zip(kL, kR))):
                lt = Or(dvlt(a, b), And(dveq(a, b), lt))
            is_match = And(la, ra, eq, bv(True) if null_eq else Not(hasnull))
            only_l = And(la, Not(is_match), Or(Not(ra), lt, And(eq, Not(bv(null_eq)))))
            only_r = And(ra, Not(is_match), Not(only_l), Or(Not(la), Not(Or(lt, eq))))
            match_t.append(is_match), advl_t.append(only_l), advr_t.append(only_r)
            self.cons.append(Lc[t + 1] == If(Or(is_match, only_l), sel(Lc[t], nxtL, n), Lc[t]))
            self.cons.append(Rc[t + 1] == If(Or(is_match, only_r), sel(Rc[t], nxtR, m), Rc[t]))

        def in_run(x, a_members, cnt, j):
            return Or([And(x == a, a_members(a, j)) for a in range(cnt)])
        out = []
        steps = []     # emission step of each output slot: the logical output sequence of the simulated merge
        for i in range(n):
            for j in range(m):
                hits = [And(match_t[t], in_run(Lc[t], memL, n, i), in_run(Rc[t], memR, m, j)) for t in range(T)]
                out.append((Or(hits), L.rows[i][1] + R.rows[j][1]))
                steps.append(Sum([If(h, t, 0) for t, h in enumerate(hits)]))
        nullL = [null(t) for t in (L.types or [None] * L.width())]
        nullR = [null(t) for t in (R.types or [None] * R.width())]
        if jt in ('left_outer', 'full_outer'):
            for i in range(n):
                hits = [And(advl_t[t], in_run(Lc[t], memL, n, i)) for t in range(T)]
                out.append((Or(hits), L.rows[i][1] + nullR))
                steps.append(Sum([If(h, t, 0) for t, h in enumerate(hits)]))
        if jt in ('right_outer', 'full_outer'):
            for j in range(m):
                hits = [And(advr_t[t], in_run(Rc[t], memR, m, j)) for t in range(T)]
                out.append((Or(hits), nullL + R.rows[j][1]))
                steps.append(Sum([If(h, t, 0) for t, h in enumerate(hits)]))
        res = Rel(L.schema + R.schema, out, (L.types or [None] * L.width()) + (R.types or [None] * R.width()))
        res.okeys = [[(V('I', st, bv(False)), False)] for st in steps]
        return res

    def p_apply(self, p, outer):
        jt = p[1]
        L = self.plan(p[2], outer)
        out = []
        subs = []
        for lp, lr in L.rows:
            subs.append(self.plan(p[3], outer=((L, lr),) + tuple(outer)))
        R0 = subs[0]
        nullR = [null(t) for t in (R0.types or [None] * R0.width())]
        if jt in ('inner', 'left_outer'):
            for (lp, lr), S in zip(L.rows, subs):
                for rp, rr in S.rows:
                    out.append((And(lp, rp), lr + rr))
            if jt == 'left_outer':
                for (lp, lr), S in zip(L.rows, subs):
                    out.append((And(lp, Not(Or([rp for rp, _ in S.rows]))), lr + nullR))
            return Rel(L.schema + R0.schema, out, (L.types or [None] * L.width()) + (R0.types or [None] * R0.width()))
        if jt in ('semi', 'anti'):
            for (lp, lr), S in zip(L.rows, subs):
                ex = Or([rp for rp, _ in S.rows])
                out.append((And(lp, ex if jt == 'semi' else Not(ex)), lr))
            return Rel(L.schema, out, L.types)
        raise NotEncodable('apply ' + str(jt))

    def p_max1row(self, p, outer):
        c = self.plan(p[1], outer)
        # scalar subquery: at most one row is assumed (more is a runtime error in SQL); keep the first present slot
        seen = bv(False)
        rows = []
        for pr, row in c.rows:
            rows.append((And(pr, Not(seen)), row))
            seen = Or(seen, pr)
        return Rel(c.schema, rows, c.types)

    # -- aggregation
    def _aggs(self, aggs, c, members, outer):
        """members(j) -> z3 Bool: child slot j belongs to the group. Returns list of V."""
        n = len(c.rows)
        vals = []
        for a in aggs:
            if a == 'rowcount':
                vals.append(V('I', Sum([If(members(j), 1, 0) for j in range(n)]) if n else IntVal(0), bv(False)))
                continue
            if not isinstance(a, list) or a[0] not in AGG_OPS:
                raise NotEncodable('agg ' + show(a))
            xs = [self.expr(a[1], c, c.rows[j][1], outer) for j in range(n)]
            t = next((x.t for x in xs if x.t), 'I')
            xs = [x if x.t else null(t) for x in xs]
            inn = [And(members(j), Not(xs[j].n)) for j in range(n)]
            cnt = Sum([If(inn[j], 1, 0) for j in range(n)]) if n else IntVal(0)
            if a[0] == 'count':
                vals.append(V('I', cnt, bv(False)))
            elif a[0] == 'sum':
                if t != 'I':
                    raise NotEncodable('sum of ' + str(t))
                vals.append(V('I', Sum([If(inn[j], xs[j].v, 0) for j in range(n)]) if n else IntVal(0), cnt == 0))
            elif a[0] in ('min', 'max'):
                nm = self.new('agg')
                m = Bool(nm) if t == 'B' else Int(nm)
                mi = If(m, 1, 0) if t == 'B' else m
                geq = (lambda x: mi <= x) if a[0] == 'min' else (lambda x: mi >= x)
                self.cons.append(Implies(cnt > 0, And(Or([And(inn[j], mi == as_int(xs[j])) for j in range(n)]),
                                                       And([Implies(inn[j], geq(as_int(xs[j]))) for j in range(n)]))))
                vals.append(V(t, m, cnt == 0))
            elif a[0] == 'count-distinct':
                first = []
                for j in range(n):
                    cond_in = members(j) if self.contracts['count_distinct_counts_null'] else inn[j]
                    dup = [And(members(i) if self.contracts['count_distinct_counts_null'] else inn[i], dveq(xs[i], xs[j])) for i in range(j)]
                    first.append(And(cond_in, Not(Or(dup)) if dup else bv(True)))
                vals.append(V('I', Sum([If(f, 1, 0) for f in first]) if n else IntVal(0), bv(False)))
            elif a[0] == 'first':
                # first value of the group in slot order (NULLs included, as agg_append's `or` skips only a NULL state)
                raise NotEncodable('first/last aggregate')
            else:
                raise NotEncodable('agg ' + a[0])
        return vals

    def p_agg(self, p, outer):
        aggs = lst(p[1])
        c = self.plan(p[2], outer)
        vals = self._aggs(aggs, c, lambda j: c.rows[j][0], outer)
        return Rel([show(a) for a in aggs], [(bv(True), vals)], [v.t for v in vals])

    def p_hashagg(self, p, outer):
        return self._hashagg(lst(p[1]), lst(p[2]), self.plan(p[3], outer), outer)

    def _hashagg(self, keys, aggs, c, outer):
        n = len(c.rows)
        kv = [[self.expr(k, c, row, outer) for k in keys] for _, row in c.rows]
        same = lambda i, j: And([dveq(a, b) for a, b in zip(kv[i], kv[j])]) if keys else bv(True)
        out = []
        for i, (pr, row) in enumerate(c.rows):
            leader = And(pr, Not(Or([And(c.rows[j][0], same(i, j)) for j in range(i)]))) if i else pr
            vals = list(kv[i]) + self._aggs(aggs, c, lambda j, i=i: And(c.rows[j][0], same(i, j)), outer)
            out.append((leader, vals))
        types = [v.t for v in out[0][1]] if out else None
        return Rel([show(k) for k in keys] + [show(a) for a in aggs], out, types)

    def p_sortagg(self, p, outer):
        """SortAggExecutor as written: a new group starts whenever the key differs from the previous row's key
        (groups are maximal runs in slot order; on input sorted by the keys this coincides with hashagg)."""
        keys, aggs = lst(p[1]), lst(p[2])
        c = self.plan(p[3], outer)
        if c.okeys is not None:
            # input comes out of a sort: groups are right iff that sort orders by the grouping keys
            self.requirements.append(('sortagg input sorted by ' + show(p[1]), self.is_sorted(c, keys, outer)))
            r = self._hashagg(keys, aggs, c, outer)
            r.okeys = c.okeys
            return r
        n = len(c.rows)
        kv = [[self.expr(k, c, row, outer) for k in keys] for _, row in c.rows]
        pr = [r[0] for r in c.rows]
        same = lambda i, j: And([dveq(a, b) for a, b in zip(kv[i], kv[j])]) if keys else bv(True)
        out = []
        for i in range(n):
            cont = []   # i continues the run of its nearest present predecessor h
            for h in range(i):
                nearest = And([pr[h]] + [Not(pr[k]) for k in range(h + 1, i)])
                cont.append(And(nearest, same(h, i)))
            leader = And(pr[i], Not(Or(cont))) if cont else pr[i]

            def member(j, i=i):
                if j < i:
                    return bv(False)
                return And([pr[j], same(i, j)] + [Implies(pr[k], same(i, k)) for k in range(i + 1, j)])
            vals = list(kv[i]) + self._aggs(aggs, c, member, outer)
            out.append((leader, vals))
        types = [v.t for v in out[0][1]] if out else None
        return Rel([show(k) for k in keys] + [show(a) for a in aggs], out, types)

    # -- order / limit
    def _keyvals(self, rel, row, ks, outer):
        kv = []
        for k in ks:
            desc = isinstance(k, list) and k[0] == 'desc'
            kv.append((self.expr(k[1] if desc else k, rel, row, outer), desc))
        return kv

    @staticmethod
    def _lex_le(a, b):
        r = bv(True)
        for (x, d), (y, _) in reversed(list(zip(a, b))):
            lt, gt = dvlt(x, y), dvlt(y, x)
            if d:
                lt, gt = gt, lt
            r = Or(lt, And(Not(gt), r))
        return r

    def is_sorted(self, rel, ks, outer=()):
        """The relation's logical row sequence is non-decreasing in ks (NULL first, DataValue::cmp).
        A relation produced by a sort has its logical sequence defined by its own sort keys (slot order is then
        meaningless); otherwise the logical sequence is the slot order."""
        n = len(rel.rows)
        kvs = [self._keyvals(rel, rel.rows[i][1], ks, outer) for i in range(n)]
        c = []
        for i in range(n):
            for j in range(n):
                if i == j:
                    continue
                both = And(rel.rows[i][0], rel.rows[j][0])
                if rel.okeys is not None:
                    # i may precede j whenever okeys_i <= okeys_j: then ks_i <= ks_j is needed
                    c.append(Implies(And(both, self._lex_le(rel.okeys[i], rel.okeys[j])), self._lex_le(kvs[i], kvs[j])))
                elif i < j:
                    c.append(Implies(both, self._lex_le(kvs[i], kvs[j])))
        return And(c) if c else bv(True)

    def sort(self, c, ks, outer=()):
        """Permutation-free sort: rows stay in their slots, the logical sequence is declared to be `by okeys`."""
        if not ks:
            return c
        out = Rel(c.schema, c.rows, c.types)
        out.okeys = [self._keyvals(c, row, ks, outer) for _, row in c.rows]
        return out

    def p_order(self, p, outer):
        c = self.plan(p[2], outer)
        return self.sort(c, lst(p[1]), outer)

    def _count(self, tok, rel, outer):
        if tok == 'null':
            return None
        if isinstance(tok, str) and INT_RE.match(tok):
            return IntVal(int(tok))
        v = self.expr(tok, None, None, outer)
        if v.t != 'I':
            raise NotEncodable('limit/offset ' + show(tok))
        self.cons.append(Or(v.n, v.v >= 0))
        return v

    def limit(self, c, lim, off, outer=()):
        if lim == 'null' and off == '0':
            return c        # no window: nothing is cut, so no assumption about ties either
        l, o = self._count(lim, c, outer), self._count(off, c, outer)
        o = IntVal(0) if o is None else (o.v if isinstance(o, V) else o)

        def window(pos):
            ok = pos >= o
            if l is not None:
                ok = And(ok, Or(l.n, pos < o + l.v)) if isinstance(l, V) else And(ok, pos < o + l)
            return ok
        out = []
        n = len(c.rows)
        if c.okeys is not None:
            # position of a row = number of present rows strictly before it in key order; assumption (stated bound):
            # the keys totally order the present rows, otherwise which rows a LIMIT keeps is unspecified
            for i in range(n):
                for j in range(i + 1, n):
                    self.cons.append(Implies(And(c.rows[i][0], c.rows[j][0]),
                                             Not(And(self._lex_le(c.okeys[i], c.okeys[j]), self._lex_le(c.okeys[j], c.okeys[i])))))
            for i, (pr, row) in enumerate(c.rows):
                pos = Sum([If(And(c.rows[j][0], Not(self._lex_le(c.okeys[i], c.okeys[j]))), 1, 0) for j in range(n) if j != i]) if n > 1 else IntVal(0)
                out.append((And(pr, window(pos)), row))
            return Rel(c.schema, out, c.types, c.okeys)
        cnt = IntVal(0)
        for pr, row in c.rows:
            out.append((And(pr, window(cnt)), row))
            cnt = If(pr, cnt + 1, cnt)
        return Rel(c.schema, out, c.types, c.okeys)

    def p_limit(self, p, outer):
        return self.limit(self.plan(p[3], outer), p[1], p[2], outer)

    def p_topn(self, p, outer):
        if p[1] == 'null' and p[2] != '0' and self.contracts.get('topn_offset_without_limit_panics'):
            # executor contract (probed): TopNExecutor reserves usize::MAX/2 + offset entries and panics (capacity overflow)
            raise EnginePanics('top-N with OFFSET %s and no LIMIT: TopNExecutor panics (capacity overflow)' % show(p[2]))
        c = self.plan(p[4], outer)
        return self.limit(self.sort(c, lst(p[3]), outer), p[1], p[2], outer)


# ---------------------------------------------------------------------- comparing results
def _roweq(r1, r2):
    return And([dveq(a, b) for a, b in zip(r1, r2)]) if r1 else bv(True)


def bag_eq(A, B):
    if A.width() != B.width():
        return bv(False)
    cons = []
    for X in (A, B):
        for p, r in X.rows:
            ca = Sum([If(And(pa, _roweq(ra, r)), 1, 0) for pa, ra in A.rows]) if A.rows else IntVal(0)
            cb = Sum([If(And(pb, _roweq(rb, r)), 1, 0) for pb, rb in B.rows]) if B.rows else IntVal(0)
            cons.append(Implies(p, ca == cb))
    return And(cons) if cons else bv(True)


def bag_subset(A, B):
    """Every row of A occurs in B at least as often."""
    cons = []
    for p, r in A.rows:
        ca = Sum([If(And(pa, _roweq(ra, r)), 1, 0) for pa, ra in A.rows])
        cb = Sum([If(And(pb, _roweq(rb, r)), 1, 0) for pb, rb in B.rows]) if B.rows else IntVal(0)
        cons.append(Implies(p, ca <= cb))
    return And(cons) if cons else bv(True)


def card(A):
    return Sum([If(p, 1, 0) for p, _ in A.rows]) if A.rows else IntVal(0)


def seq_eq_on(A, B, colsA, colsB=None):
    """The i-th present row of A equals the i-th present row of B on the given columns."""
    colsB = colsB or colsA

    def ranks(X):
        out, cnt = [], IntVal(0)
        for p, row in X.rows:
            out.append((p, cnt, row))
            cnt = If(p, cnt + 1, cnt)
        return out
    cons = []
    for pa, ra, rowa in ranks(A):
        for pb, rb, rowb in ranks(B):
            cons.append(Implies(And(pa, pb, ra == rb), And([dveq(rowa[x], rowb[y]) for x, y in zip(colsA, colsB)])))
    return And(cons) if cons else bv(True)


# ---------------------------------------------------------------------- models
def mval(m, v):
    """Concrete python value of V under model m (None for NULL)."""
    if is_true(m.eval(v.n, model_completion=True)):
        return None
    x = m.eval(v.v, model_completion=True)
    if v.t == 'B':
        return bool(is_true(x))
    return x.as_long()


def model_tables(m, enc):
    db = {}
    for t, rows in enc.tabs.items():
        db[t] = [[mval(m, v) for v in vals] for pr, vals in rows if is_true(m.eval(pr, model_completion=True))]
    return db


def model_rel(m, rel):
    return [[mval(m, v) for v in row] for p, row in rel.rows if is_true(m.eval(p, model_completion=True))]


def seq_eq_vals(A, valsA, B, valsB):
    """The i-th present row of A carries the same value tuple as the i-th present row of B (valsX: per-slot [V...])."""
    def ranks(X):
        out, cnt = [], IntVal(0)
        for p, _ in X.rows:
            out.append((p, cnt))
            cnt = If(p, cnt + 1, cnt)
        return out
    cons = []
    ra, rb = ranks(A), ranks(B)
    for i, (pa, ka) in enumerate(ra):
        for j, (pb, kb) in enumerate(rb):
            cons.append(Implies(And(pa, pb, ka == kb), And([dveq(x, y) for x, y in zip(valsA[i], valsB[j])])))
    return And(cons) if cons else bv(True)


def ordered_eq(A, B):
    """Both relations are sorted by their own keys: same rows *with* the same sort-key values (and directions)."""
    if A.okeys is None or B.okeys is None:
        return None
    da = [d for _, d in A.okeys[0]] if A.okeys else []
    db = [d for _, d in B.okeys[0]] if B.okeys else []
    if da != db:
        return bv(False)
    A2 = Rel(A.schema, [(p, row + [k for k, _ in ks]) for (p, row), ks in zip(A.rows, A.okeys)])
    B2 = Rel(B.schema, [(p, row + [k for k, _ in ks]) for (p, row), ks in zip(B.rows, B.okeys)])
    return bag_eq(A2, B2)
