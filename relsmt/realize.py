"""Turn a solver model into something the real engine can run: table contents, and concrete expressions for the
uninterpreted functions (built only from =, isnull, and/or/not, cast and / so that they do not depend on CASE)."""
from z3 import is_true
from .sexp import show
from .instantiate import decode_uf


def lit(v, t=None):
    if v is None:
        return 'null'
    if isinstance(v, bool):
        return 'true' if v else 'false'
    return str(v)


def sql_lit(v, strmap=None):
    if v is None:
        return 'NULL'
    if isinstance(v, bool):
        return 'true' if v else 'false'
    if strmap is not None:
        return "'" + strmap(v).replace("'", "''") + "'"
    return str(v)


def _and(xs):
    xs = list(xs)
    if not xs:
        return 'true'
    r = xs[0]
    for x in xs[1:]:
        r = ['and', r, x]
    return r


def _or(xs):
    xs = list(xs)
    if not xs:
        return 'false'
    r = xs[0]
    for x in xs[1:]:
        r = ['or', r, x]
    return r


def uf_tables(m, enc):
    """{name: {argtuple: value}} from the model, over every application site recorded by the encoder."""
    tabs = {}
    for key, apps in enc.uf_apps.items():
        name, rett, sig = key
        fv, fn = enc.ufs[key]
        tab = tabs.setdefault(name, {})
        for zargs in apps:
            conc = []
            for i in range(0, len(zargs), 2):
                isn = is_true(m.eval(zargs[i + 1], model_completion=True))
                if isn:
                    conc.append(None)
                else:
                    x = m.eval(zargs[i], model_completion=True)
                    conc.append(bool(is_true(x)) if str(x.sort()) == 'Bool' else x.as_long())
            if zargs:
                rv, rn = m.eval(fv(*zargs), model_completion=True), m.eval(fn(*zargs), model_completion=True)
            else:
                rv, rn = m.eval(fv, model_completion=True), m.eval(fn, model_completion=True)
            if is_true(rn):
                val = None
            else:
                val = bool(is_true(rv)) if rett == 'B' else rv.as_long()
            tab[tuple(conc)] = val
    return tabs


def realize_uf(name, rett, args, tab):
    """Concrete expression equal to the model's function on every argument tuple in tab."""
    def match(tup):
        c = []
        for a, v in zip(args, tup):
            if v is None:
                c.append(['isnull', a])
            else:
                c.append(['and', ['not', ['isnull', a]], ['=', a, lit(v)]])
        return _and(c)
    nulls = _or(match(t) for t, v in tab.items() if v is None)
    if rett == 'B':
        trues = _or(match(t) for t, v in tab.items() if v is True)
        if nulls == 'false':
            return trues
        return ['or', trues, ['and', nulls, ['cast', 'BOOLEAN', 'null']]]
    terms = [['*', ['cast', 'INT', match(t)], lit(v)] for t, v in tab.items() if v not in (None, 0)]
    s = '0'
    for t in terms:
        s = t if s == '0' else ['+', s, t]
    if nulls == 'false':
        return s
    return ['/', s, ['cast', 'INT', ['not', nulls]]]


def realize(e, tabs):
    """Replace every UF application inside e by its realisation."""
    d = decode_uf(e)
    if d is not None:
        name, rett, args = d
        return realize_uf(name, rett, [realize(a, tabs) for a in args], tabs.get(name, {}))
    if isinstance(e, str):
        return e
    return [realize(x, tabs) for x in e]


def inserts(db, table_name=lambda t: 't' + t, strcols=None):
    """One INSERT per row, in slot order (each row becomes its own row-set on disk)."""
    out = []
    for t in sorted(db):
        for row in db[t]:
            out.append('insert into %s values (%s)' % (table_name(t), ', '.join(sql_lit(v) for v in row)))
    return out
