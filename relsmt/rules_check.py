"""C01(a) / C12(a): every rewrite rule, taken alone, preserves results.

Scalar rules (expr.rs): pattern variables are symbolic nullable values; the rhs comes from the compiled inventory, the
side conditions from the source.  Plan rules: the lhs is instantiated (relsmt.instantiate), pushed through the *real*
compiled rule (Optimizer::verif_apply_rule), and lhs-instance vs real-rhs are compared over K-row symbolic tables.
"""
import itertools, os, re, time, json
from z3 import Solver, And, Or, Not, sat, unsat, is_true, BoolVal, Int, Bool
from vlib.common import rl, Inconclusive, REPO, log, tier
from . import sem
from .sem import Enc, V, NotEncodable, Unresolved, EnginePanics, bag_eq, seq_eq_vals, card, model_tables, model_rel, mval
from .sexp import parse, show, subst, atoms, norm, lst
from .instantiate import Instantiator, CannotInstantiate, is_scalar_rule, ddl, tables_for_enc, decode_uf, NTABLES
from .realize import uf_tables, realize, inserts, lit

CONTRACTS = {}
ORDER_SENSITIVE = re.compile(r'\((order|topn|limit) ')


# ------------------------------------------------------------------------------------------------ side conditions
def null_is_zero_from_source():
    """`is_not_zero` is `!DataValue::is_zero`; read is_zero's Null arm from the source."""
    src = open(os.path.join(REPO, 'src/types/value.rs')).read()
    m = re.search(r'pub fn is_zero\(&self\) -> bool \{\s*match self \{\s*Self::Null => (true|false)', src)
    if not m:
        raise Inconclusive('cannot read DataValue::is_zero Null arm')
    return m.group(1) == 'true'


def scalar_cond(name, args, vals, null_is_zero):
    """z3 constraint for a side condition over constant operands (a constant is any value, possibly NULL)."""
    if name == 'is_not_zero':
        x = vals[args[0]]
        zero = (Not(x.v) if x.t == 'B' else x.v == 0) if x.t != 'S' else BoolVal(False)
        return Or(And(x.n, BoolVal(not null_is_zero)), And(Not(x.n), Not(zero)))
    cmpf = {'is_greater_than_or_equal': lambda a, b: a >= b, 'is_greater_than': lambda a, b: a > b,
            'is_less_than_or_equal': lambda a, b: a <= b, 'is_less_than': lambda a, b: a < b}
    if name in cmpf:
        a, b = vals[args[0]], vals[args[1]]
        # value_cmp: same DataValue variant and derived Ord: NULL vs NULL compares Equal; NULL vs value differ in variant
        f = cmpf[name]
        both_null = And(a.n, b.n)
        return Or(And(both_null, BoolVal(f(0, 0))), And(Not(a.n), Not(b.n), f(sem.as_int(a), sem.as_int(b))))
    raise Inconclusive('unknown side condition %s in a scalar rule' % name)


# ------------------------------------------------------------------------------------------------ scalar rules
ARITH = {'+', '-', '*', '/', '%'}
CMPS = {'=', '<>', '>', '<', '>=', '<='}


class TypeInf:
    """Tiny unifier: each pattern variable / subterm gets a type in {I,B,S} or a type variable."""

    def __init__(self):
        self.parent = {}
        self.conc = {}

    def find(self, x):
        while self.parent.get(x, x) != x:
            x = self.parent[x]
        return x

    def fix(self, x, t):
        r = self.find(x)
        if self.conc.get(r, t) != t:
            raise TypeError('type clash')
        self.conc[r] = t

    def union(self, a, b):
        ra, rb = self.find(a), self.find(b)
        if ra == rb:
            return
        ta, tb = self.conc.get(ra), self.conc.get(rb)
        if ta and tb and ta != tb:
            raise TypeError('type clash')
        self.parent[ra] = rb
        if ta:
            self.conc[rb] = ta

    def walk(self, e, n=[0]):
        """Returns a type node for e."""
        if isinstance(e, str):
            if e.startswith('?'):
                return e
            n[0] += 1
            node = '#%d' % n[0]
            if e in ('true', 'false'):
                self.fix(node, 'B')
            elif e == 'null':
                pass
            elif re.match(r'-?\d+$', e):
                self.fix(node, 'I')
            elif e.startswith("'"):
                self.fix(node, 'S')
            return node
        n[0] += 1
        node = '#%d' % n[0]
        op = e[0]
        kids = [self.walk(x) for x in e[1:]]
        if op in ARITH:
            for k in kids:
                self.fix(k, 'I')
            self.fix(node, 'I')
        elif op in CMPS:
            self.union(kids[0], kids[1])
            self.fix(node, 'B')
        elif op in ('and', 'or', 'not', 'xor'):
            for k in kids:
                self.fix(k, 'B')
            self.fix(node, 'B')
        elif op == 'if':
            self.fix(kids[0], 'B')
            self.union(kids[1], kids[2])
            self.union(node, kids[1])
        elif op == 'isnull':
            self.fix(node, 'B')
        else:
            raise NotEncodable('scalar operator ' + op)
        return node


def check_scalar_rule(rule, report, null_is_zero, replay=True):
    """One obligation per type instantiation. Returns list of outcome dicts."""
    L, R = parse(rule.lhs), parse(rule.rhs)
    ti = TypeInf()
    try:
        tl, tr = ti.walk(L), ti.walk(R)
        ti.union(tl, tr)
    except (TypeError, NotEncodable) as ex:
        report.skip(rule.text(), 'not encodable: %s' % ex)
        return
    vars_ = sorted(set(a for a in atoms(L) if a.startswith('?')) | set(a for a in atoms(R) if a.startswith('?')))
    classes = sorted(set(ti.find(v) for v in vars_ if ti.find(v) not in ti.conc))
    for combo in itertools.product('IBS', repeat=len(classes)):
        asg = dict(zip(classes, combo))
        types = {v: ti.conc.get(ti.find(v)) or asg[ti.find(v)] for v in vars_}
        # arithmetic-typed relations on non-ints are ill-typed; comparison on B/S fine
        enc = Enc({}, K=1)
        vals = {}
        for v, t in types.items():
            n = Bool('v_%s_n' % v[1:])
            x = Bool('v_%s' % v[1:]) if t == 'B' else Int('v_%s' % v[1:])
            vals[v] = V(t, x, n)
            if t != 'B':
                enc.cons += [x >= -enc.bound, x <= enc.bound]
        rel = sem.Rel(list(vals), None)
        row = [vals[v] for v in vals]
        s = Solver()
        s.set('timeout', 60000)
        try:
            lv, rv = enc.expr(L, rel, row), enc.expr(R, rel, row)
        except NotEncodable as ex:
            report.skip(rule.text() + ' @' + ''.join(combo), 'not encodable: %s' % ex)
            continue
        for c, a in rule.conds:
            s.add(scalar_cond(c, a, vals, null_is_zero))
        s.add(enc.cons + enc.strlit_constraints())
        t0 = time.time()
        # vacuity witness: the side conditions must be satisfiable
        if s.check() != sat:
            report.fail_inconclusive('vacuous: side conditions of %s unsatisfiable' % rule.name)
            continue
        report.cov['vacuity_witnesses'] += 1
        s.add(Not(sem.dveq(lv, rv)))
        r = s.check()
        report.solver(time.time() - t0, 2)
        inst = '%s  [%s]' % (rule.text(), ','.join('%s:%s' % (v, t) for v, t in types.items()))
        if r == unsat:
            report.obligation(True)
            report.sample({'rule': rule.name, 'kind': 'scalar', 'instance': inst, 'verdict': 'unsat (holds)'}, cap=6)
            continue
        if r != sat:
            report.obligation(False)
            report.fail_inconclusive('solver unknown on ' + inst)
            continue
        m = s.model()
        w = {v: mval(m, x) for v, x in vals.items()}
        want = (mval(m, lv), mval(m, rv))
        rep = replay_scalar(rule, L, R, types, w, want) if replay else {'reproduced': None}
        report.cov['disagreements_checked'] += 1
        what = 'rewrite %s: %s => %s changes the value for %s (lhs=%s, rhs=%s)' % (
            rule.name, rule.lhs, rule.rhs, ', '.join('%s=%s' % (k, lit(v)) for k, v in w.items()), lit(want[0]), lit(want[1]))
        out = report.counterexample(rule.key() + '#' + ','.join('%s:%s' % (v, t) for v, t in sorted(types.items())), what, {'rule': rule.text(), 'types': types, 'values': w, 'model_lhs_rhs': want, 'replay': rep},
                                    rep['reproduced'])
        report.obligation(out == 'known')
        report.sample({'rule': rule.name, 'kind': 'scalar', 'instance': inst, 'verdict': 'sat', 'witness': w, 'replay': rep.get('how'), 'class': out}, cap=10)


SQLT = {'I': 'INT', 'B': 'BOOLEAN', 'S': 'VARCHAR'}

# constants for side conditions decided by the real rule: (text as the planner's constant, type, value or None for NULL)
CONST_DOMAIN = {
    'I': [('0', 0), ('1', 1), ('2', 2), ('-1', -1), ('3000000000', 3000000000), ('-3000000000', -3000000000), ('null', None)],
    'B': [('true', True), ('false', False), ('null', None)],
    'S': [("'a'", 'a'), ("'b'", 'b'), ('null', None)],
}


def check_scalar_rule_real_conditions(rule, report, replay=True):
    """Side conditions over constants (is_greater_than, is_not_zero, ...) are code: whether the rule fires on given constants
    is asked of the *real* rule (Optimizer::verif_apply_rule) for every combination of constants from a small typed domain
    (same and different widths, equal / smaller / larger, NULL); for each combination on which it fires the solver decides
    `lhs == rhs` for every value of the remaining (column) variables."""
    L, R = parse(rule.lhs), parse(rule.rhs)
    const_vars = sorted(set(a for c, args in rule.conds for a in args))
    if not const_vars:
        return
    ti = TypeInf()
    try:
        tl, tr = ti.walk(L), ti.walk(R)
        ti.union(tl, tr)
    except (TypeError, NotEncodable):
        return
    vars_ = sorted(set(a for a in atoms(L) if a.startswith('?')) | set(a for a in atoms(R) if a.startswith('?')))
    classes = sorted(set(ti.find(v) for v in vars_ if ti.find(v) not in ti.conc))
    items, metas = [], []
    for combo in itertools.product('IBS', repeat=len(classes)):
        asg = dict(zip(classes, combo))
        types = {v: ti.conc.get(ti.find(v)) or asg[ti.find(v)] for v in vars_}
        cols = [v for v in vars_ if v not in const_vars]
        for consts in itertools.product(*[CONST_DOMAIN[types[v]] for v in const_vars]):
            m = {v: c[0] for v, c in zip(const_vars, consts)}
            for i, v in enumerate(cols):
                m[v] = '$0.%d' % i
            inst = subst(L, m)
            items.append({'name': rule.name, 'lhs': rule.lhs, 'expr': show(inst)})
            metas.append((types, dict(zip(const_vars, consts)), cols, inst))
    if not items:
        return
    # one table wide enough for every column typing: columns are only referenced, never read
    setup = ['create table r(c0 int, c1 int, c2 int)']
    out, rc, err = rl('applyrule', {'setup': setup, 'config': {'name': 'mem'}, 'items': items}, timeout=300)
    got = [o for o in out if 'name' in o]
    if len(got) != len(items):
        report.fail_inconclusive('applyrule returned %d results for %d constant instances of %s: %s' % (len(got), len(items), rule.name, err[-200:]))
        return
    fired = 0
    seen = set()
    for (types, consts, cols, inst), g in zip(metas, got):
        if g.get('norule'):
            report.fail_inconclusive('compiled rule %s not found by the hook' % rule.name)
            return
        for rhs_txt in g.get('out', []) or []:
            fired += 1
            rhs = parse(rhs_txt)
            enc = Enc({}, K=1)
            vals = {}
            for i, v in enumerate(cols):
                t = types[v]
                n = Bool('v_%s_n' % v[1:])
                x = Bool('v_%s' % v[1:]) if t == 'B' else Int('v_%s' % v[1:])
                vals['$0.%d' % i] = V(t, x, n)
                if t != 'B':
                    enc.cons += [x >= -enc.bound, x <= enc.bound]
            rel = sem.Rel(list(vals), None)
            row = [vals[k] for k in vals]
            try:
                lv, rv = enc.expr(inst, rel, row), enc.expr(rhs, rel, row)
            except (NotEncodable, Unresolved) as ex:
                report.skip('%s on %s' % (rule.name, show(inst)), 'not encodable: %s' % ex)
                continue
            s = Solver()
            s.set('timeout', 30000)
            s.add(enc.cons + enc.strlit_constraints())
            s.add(Not(sem.dveq(lv, rv)))
            t0 = time.time()
            r = s.check()
            report.solver(time.time() - t0, 1)
            report.cov['programs'] += 1
            if r == unsat:
                report.obligation(True)
                continue
            if r != sat:
                report.obligation(False)
                report.fail_inconclusive('solver unknown on %s' % show(inst))
                continue
            mdl = s.model()
            w = {k: mval(mdl, x) for k, x in vals.items()}
            # replay: both sides on a one-row table holding the witness columns
            colsql = ', '.join('c%d %s' % (i, SQLT[types[v]]) for i, v in enumerate(cols)) or 'c0 int'
            ins = ', '.join('NULL' if w['$0.%d' % i] is None else (lit(w['$0.%d' % i]) if types[v] != 'S' else "'s%03d'" % (w['$0.%d' % i] + 500)) for i, v in enumerate(cols)) or '0'
            src = ['scan', '$0', ['list'] + (['$0.%d' % i for i in range(len(cols))] or ['$0.0']), 'true']
            plans = [show(['proj', ['list', inst], src]), show(['proj', ['list', rhs], src])]
            rep = {'reproduced': None}
            if replay:
                o2, rc2, err2 = rl('planrun', {'setup': ['create table r(%s)' % colsql, 'insert into r values (%s)' % ins], 'plans': plans})
                res = [o for o in o2 if 'plan' in o]
                if len(res) == 2 and all(o.get('ok') and not o.get('panicked') and len(o.get('rows', [])) == 1 for o in res):
                    a, b = res[0]['rows'][0][0], res[1]['rows'][0][0]
                    rep = {'reproduced': a != b, 'how': {'plans': plans, 'row': w, 'engine_lhs': a, 'engine_rhs': b}}
                else:
                    rep = {'reproduced': None, 'how': {'plans': plans, 'note': 'a side is not executable: ' + err2[-200:]}}
            # constants of one variant (both narrow, both wide, both NULL) fall under the typed instantiation's key; constants of
            # different variants (narrow vs wide integer, NULL vs value) are a different site
            variant = lambda v, c: 'null' if c[1] is None else ('wide' if isinstance(c[1], int) and not isinstance(c[1], bool) and abs(c[1]) > 2 ** 31 else types[v])
            shapes = sorted(set(variant(v, c) for v, c in consts.items()))
            key = rule.key() + '#' + ','.join('%s:%s' % (v, t) for v, t in sorted(types.items()))
            if len(shapes) > 1:
                key += '|consts=' + ','.join('%s:%s' % (v, variant(v, c)) for v, c in sorted(consts.items()))
            if key in seen:
                continue
            seen.add(key)
            report.cov['disagreements_checked'] += 1
            what = 'rewrite %s fires on the constants %s and changes the value: %s => %s differ for %s' % (
                rule.name, {v: c[0] for v, c in consts.items()}, show(inst), show(rhs), w)
            outc = report.counterexample(key, what[:600], {'rule': rule.text(), 'instance': show(inst), 'rhs': show(rhs), 'witness': w, 'replay': rep}, rep['reproduced'])
            report.obligation(outc == 'known')
    report.cov['scalar_rule_constant_instances'] = report.cov.get('scalar_rule_constant_instances', 0) + len(items)
    report.cov['scalar_rule_constant_instances_fired'] = report.cov.get('scalar_rule_constant_instances_fired', 0) + fired


def replay_scalar(rule, L, R, types, w, want):
    """Evaluate both sides on the real engine: variables become columns of a one-row table (constants where the side
    conditions demand constants); a bare `null` operand is written as a typed NULL (the executor rejects untyped ones)."""
    const_vars = set(a for c, args in rule.conds for a in args)
    cols = [v for v in types if v not in const_vars]
    m = {}

    def slit(x, t):
        # strings: order-preserving image of the model's integer
        return "'s%03d'" % (x + 500) if t == 'S' else lit(x)
    for v in types:
        if v in const_vars:
            m[v] = slit(w[v], types[v]) if w[v] is not None else ['cast', SQLT[types[v]], 'null']
    setup = []
    if cols:
        setup.append('create table r(%s)' % ', '.join('c%d %s' % (i, SQLT[types[v]]) for i, v in enumerate(cols)))
        setup.append('insert into r values (%s)' % ', '.join('NULL' if w[v] is None else slit(w[v], types[v]) for v in cols))
        for i, v in enumerate(cols):
            m[v] = '$0.%d' % i
        src = ['scan', '$0', ['list'] + ['$0.%d' % i for i in range(len(cols))], 'true']
    else:
        setup.append('create table r(c0 int)')
        setup.append('insert into r values (0)')
        src = ['scan', '$0', ['list', '$0.0'], 'true']

    def typed_nulls(e, t):
        if e == 'null':
            return ['cast', SQLT.get(t, 'INT'), 'null']
        if isinstance(e, str):
            return e
        op = e[0]
        if op in ('and', 'or', 'not'):
            return [op] + [typed_nulls(x, 'B') for x in e[1:]]
        if op in ARITH:
            return [op] + [typed_nulls(x, 'I') for x in e[1:]]
        if op == 'cast':
            return e
        return [op] + [typed_nulls(x, t) for x in e[1:]]
    l2, r2 = typed_nulls(subst(L, m), None), typed_nulls(subst(R, m), None)
    plans = [show(['proj', ['list', l2], src]), show(['proj', ['list', r2], src])]
    out, rc, err = rl('planrun', {'setup': setup, 'plans': plans})
    res = [o for o in out if 'plan' in o]
    if len(res) != 2:
        return {'reproduced': None, 'how': 'replay did not run: ' + err[-200:], 'plans': plans}

    def val(o):
        if not o.get('ok') or o.get('panicked') or len(o.get('rows', [])) != 1:
            return ('ERR', o.get('err') or 'panic/no row')
        return o['rows'][0][0]
    a, b = val(res[0]), val(res[1])
    how = {'plans': plans, 'setup': setup, 'engine_lhs': a, 'engine_rhs': b}
    if isinstance(a, tuple) or isinstance(b, tuple):
        # one side cannot be executed at all: compare the executable side with the encoding, label model-referenced
        how['note'] = 'model-referenced: a side is not executable (%s)' % (a if isinstance(a, tuple) else b,)
        return {'reproduced': None, 'how': how}
    return {'reproduced': a != b, 'how': how}


# ------------------------------------------------------------------------------------------------ plan rules
def encode_pair(lhs, rhs, K, no_ties, wrap=None, allpk=False, engine='mem'):
    """Returns (solver-ready constraints, goal, enc, L, R) for `rows(lhs) == rows(rhs)`."""
    tabs = tables_for_enc(allpk)
    enc = Enc(tabs, K=K, contracts=CONTRACTS)
    enc.engine = engine
    enc.no_ties = no_ties
    if wrap is not None:
        sc = ['scan', '$%d' % wrap, ['list', '$%d.0' % wrap, '$%d.1' % wrap], 'true']
        lhs, rhs = ['proj', ['list', lhs], sc], ['proj', ['list', rhs], sc]
    L = enc.plan(lhs)
    nl = len(enc.requirements)
    R = enc.plan(rhs)
    lreq = [c for _, c in enc.requirements[:nl]]
    rreq = enc.requirements[nl:]
    goal = [bag_eq(L, R)]
    if L.okeys is not None:
        if R.okeys is not None and all(len(a) == len(b) for a, b in zip(L.okeys, R.okeys)):
            goal.append(sem.ordered_eq(L, R))
        else:
            # rhs carries no sort of its own: its slot sequence must still be ordered by the lhs keys where they are visible
            goal.append(('order', None))
    return enc, L, R, lreq, rreq, goal


def rhs_sorted_like(enc, L, R, lhs):
    """When the rhs has no sort node, require its output sequence to be sorted by the lhs's top-level order keys,
    if those keys are computable from the rhs output."""
    p = lhs
    while isinstance(p, list) and p[0] in ('proj', 'filter', 'limit'):
        p = p[-1]
    if not (isinstance(p, list) and p[0] in ('order', 'topn')):
        return None
    ks = lst(p[1] if p[0] == 'order' else p[3])
    try:
        return enc.is_sorted(R, ks)
    except (Unresolved, NotEncodable):
        return None


KEY_AXES = ('jt', 'sortsrc', 'childshape')   # variant axes that select different semantics; parameter sweeps are folded into one finding


def inst_key(rule, choice):
    return rule.key() + '#' + ','.join('%s=%s' % (k, v) for k, v in sorted(choice.items()) if k in KEY_AXES)


class RuleLite:
    """Picklable view of a rule for worker processes."""

    def __init__(self, r):
        self.name, self.lhs, self.rhs, self.conds, self.applier = r.name, r.lhs, r.rhs, r.conds, r.applier
        self._key, self._text = r.key(), r.text()

    def key(self):
        return self._key

    def text(self):
        return self._text


def plan_rule_tasks(rule, report, K, thorough):
    """Instantiate the lhs, push every instance through the real rule, return solver tasks."""
    ins = Instantiator(rule, thorough)
    needs_disk = any(c in ('is_orderby', 'is_primary_key_range') for c, _ in rule.conds)
    config = {'name': 'disk', 'range': True, 'sorted': True} if needs_disk else {'name': 'mem'}
    insts = []
    for ch in ins.choices():
        try:
            insts.append(ins.instantiate(ch))
        except CannotInstantiate as ex:
            report.skip(rule.text(), 'cannot instantiate: %s' % ex)
            return []
    if not insts:
        report.skip(rule.text(), 'no instance')
        return []
    res = [None] * len(insts)
    for allpk in (False, True):
        idx = [k for k, i in enumerate(insts) if bool(i.setup) == allpk]
        if not idx:
            continue
        items = [{'name': rule.name, 'lhs': rule.lhs, 'expr': show(insts[k].lhs)} for k in idx]
        out, rc, err = rl('applyrule', {'setup': ddl(allpk), 'config': config, 'items': items}, timeout=300)
        got = [o for o in out if 'name' in o]
        if len(got) != len(idx):
            report.fail_inconclusive('applyrule returned %d results for %d instances of %s: %s' % (len(got), len(idx), rule.name, err[-300:]))
            return []
        for k, g in zip(idx, got):
            res[k] = g
    tasks = []
    ntab = len(set(re.findall(r'\$(\d+)\b', show(insts[0].lhs))))
    k = K if ntab <= 2 else min(K, 2)
    for inst, r in zip(insts, res):
        if r.get('norule'):
            report.fail_inconclusive('compiled rule %s not found by the hook' % rule.name)
            return []
        if r.get('panic') or r.get('parse_err'):
            report.skip('%s on %s' % (rule.name, show(inst.lhs)), 'real rule application failed: %s' % ('panic' if r.get('panic') else r.get('parse_err')))
            continue
        for rhs_txt in r.get('out', []):
            tasks.append((RuleLite(rule), inst.lhs, inst.choice, inst.wrap, rhs_txt, k, bool(inst.setup), needs_disk))
    if not tasks:
        # every instance was rejected by the real rule's side conditions: our reading of them is wrong, or the
        # instantiation is too narrow -- either way nothing was decided for this rule
        report.fail_inconclusive('no instance of %s was accepted by the real rule (instances: %s)' % (rule.name, [show(i.lhs) for i in insts][:2]))
    return tasks


def solve_task(task):
    """Worker: decide one pair; when the solver gives up at K rows, retry with fewer and report the bound reached."""
    res = solve_task_at(task, task[5])
    k = task[5]
    while res['verdict'] == 'unknown' and k > 2:
        k -= 1
        res = solve_task_at(task, k)
        res['note'] = 'solver gave up at K=%d; decided at K=%d' % (task[5], k)
    return res


def solve_task_at(task, K):
    rule, lhs, choice, wrap, rhs_txt, _, allpk, _disk = task
    rhs = parse(rhs_txt)
    res = {'rule': rule.name, 'key': inst_key(rule, choice), 'text': rule.text(), 'lhs': show(lhs), 'rhs': show(rhs), 'K': K,
           'desc': '%s  [%s]' % (rule.name, ' '.join('%s=%s' % kv for kv in sorted(choice.items())))}
    no_ties = bool(ORDER_SENSITIVE.search(show(lhs)) or ORDER_SENSITIVE.search(show(rhs)))
    try:
        enc, L, R, lreq, rreq, goal = encode_pair(lhs, rhs, K, no_ties, wrap, allpk, 'disk' if task[7] else 'mem')
    except NotEncodable as ex:
        res.update(verdict='skip', why='not encodable: %s' % ex)
        return res
    except EnginePanics as ex:
        db = {str(i): [[1, 1], [2, 2]] for i in range(NTABLES)}
        rep = replay_plans(lhs, rhs, db, {}, wrap, None, None, False, allpk)
        how = rep.get('how', {})
        ok_l, ok_r = how.get('engine_lhs') is not None, how.get('engine_rhs') is not None
        if not ok_l and not ok_r:
            res.update(verdict='skip', why='both sides make the executor panic (%s)' % ex)
            return res
        res.update(verdict='dangling', what='rewrite %s yields a plan on which the executor panics (%s): %s => %s' % (rule.name, ex, show(lhs), show(rhs)),
                   replay=rep, reproduced=(ok_l != ok_r))
        return res
    except Unresolved as ex:
        # replay: on any non-empty database the lhs instance runs and the rewritten plan cannot be built
        db = {str(i): [[1, 1]] for i in range(NTABLES)}
        ones = {}

        def collect(e):
            d = decode_uf(e)
            if d is not None:
                ones[d[0]] = {tuple([1] * len(d[2])): (True if d[1] == 'B' else 1)}
                for a in d[2]:
                    collect(a)
            elif isinstance(e, list):
                for x in e:
                    collect(x)
        collect(lhs), collect(rhs)
        rep = replay_plans(lhs, rhs, db, ones, wrap, None, None, False, allpk)
        how = rep.get('how', {})
        ok_l, ok_r = how.get('engine_lhs') is not None, how.get('engine_rhs') is not None
        res.update(verdict='dangling', what='rewrite %s yields a plan with a dangling column reference %s: %s => %s' % (rule.name, ex, show(lhs), show(rhs)),
                   replay=rep, reproduced=(True if (ok_l and not ok_r) else (False if (ok_l and ok_r) else None)))
        return res
    g = []
    for x in goal:
        if isinstance(x, tuple):
            c = rhs_sorted_like(enc, L, R, lhs)
            if c is not None:
                g.append(c)
        else:
            g.append(x)
    g += [c for _, c in rreq]
    s = Solver()
    s.set('timeout', 150000)
    s.add(enc.cons + enc.strlit_constraints() + lreq)
    t0 = time.time()
    if s.check() != sat:
        res.update(verdict='vacuous', solver_s=time.time() - t0)
        return res
    s.add(Not(And(g)))
    r = s.check()
    res['solver_s'] = time.time() - t0
    if r == unsat:
        res['verdict'] = 'unsat'
        return res
    if r != sat:
        res['verdict'] = 'unknown'
        return res
    m = s.model()
    db = model_tables(m, enc)
    ufs = uf_tables(m, enc)
    broken_req = [d for d, c in rreq if not is_true(m.eval(c, model_completion=True))]
    rows_l, rows_r = model_rel(m, L), model_rel(m, R)
    rep = replay_plans(lhs, rhs, db, ufs, wrap, rows_l, rows_r, bool(L.okeys), allpk)
    if rep['reproduced'] is False and broken_req:
        # The model violates a physical operator's precondition (e.g. merge join on input not sorted by its keys) but is
        # one on which the executor happens to give the same rows.  Look for a model of the same violation that is
        # observable: all row slots present, non-empty results, and a different database each time.
        s.push()
        s.add([pr for t, rows in enc.tabs.items() for pr, _ in rows])
        s.add(sem.card(L) >= 1)
        for _ in range(8):
            if s.check() != sat:
                break
            m2 = s.model()
            db2, ufs2 = model_tables(m2, enc), uf_tables(m2, enc)
            rep2 = replay_plans(lhs, rhs, db2, ufs2, wrap, model_rel(m2, L), model_rel(m2, R), bool(L.okeys), allpk)
            if rep2['reproduced']:
                m, db, ufs, rep = m2, db2, ufs2, rep2
                broken_req = [d for d, c in rreq if not is_true(m.eval(c, model_completion=True))]
                rows_l, rows_r = model_rel(m, L), model_rel(m, R)
                break
            s.add(Or([v.v != m2.eval(v.v, model_completion=True) for t, rows in enc.tabs.items() for _, vals in rows for v in vals]))
        s.pop()
    res.update(verdict='sat', db=db, ufs={k: {str(a): v for a, v in t.items()} for k, t in ufs.items()}, broken_req=broken_req,
               rows_l=rows_l, rows_r=rows_r, replay=rep)
    return res


def absorb(report, res):
    report.solver(res.get('solver_s', 0.0), 2)
    v = res['verdict']
    if v == 'skip':
        report.skip(res['desc'], res['why'])
        return
    if v == 'dangling':
        out = report.counterexample(res['key'], res['what'][:600], {'rule': res['text'], 'lhs': res['lhs'], 'rhs': res['rhs'], 'replay': res.get('replay')}, res.get('reproduced'))
        report.obligation(out == 'known')
        report.cov['programs'] += 1
        return
    if v == 'vacuous':
        report.fail_inconclusive('vacuous encoding for ' + res['desc'])
        return
    report.cov['vacuity_witnesses'] += 1
    report.cov['programs'] += 1
    if v == 'unsat':
        report.obligation(True)
        report.sample({'rule': res['rule'], 'kind': 'plan', 'lhs': res['lhs'], 'real_rhs': res['rhs'], 'K': res['K'], 'verdict': 'unsat (holds)',
                       'solver_s': round(res['solver_s'], 2)}, cap=8)
        return
    if v == 'unknown':
        report.obligation(False)
        report.fail_inconclusive('solver unknown on ' + res['desc'])
        return
    rep = res['replay']
    report.cov['disagreements_checked'] += 1
    what = 'rewrite %s is not result-preserving: %s => %s on %s%s' % (
        res['rule'], res['lhs'], res['rhs'], json.dumps(res['db']), (' (violated precondition: %s)' % res['broken_req']) if res['broken_req'] else '')
    out = report.counterexample(res['key'], what[:600], {'rule': res['text'], 'lhs': res['lhs'], 'rhs': res['rhs'], 'db': res['db'], 'ufs': res['ufs'],
                                                        'model_rows_lhs': res['rows_l'], 'model_rows_rhs': res['rows_r'], 'replay': rep}, rep['reproduced'])
    report.obligation(out == 'known')
    report.sample({'rule': res['rule'], 'kind': 'plan', 'lhs': res['lhs'], 'real_rhs': res['rhs'], 'verdict': 'sat', 'db': res['db'], 'class': out,
                   'replayed': rep.get('reproduced')}, cap=12)


def canon_rows(rows):
    return sorted(json.dumps(r) for r in rows)


def to_engine_rows(rows):
    """Model rows in the driver's textual form (values as strings, NULL as None)."""
    return [[None if v is None else (('true' if v else 'false') if isinstance(v, bool) else str(v)) for v in r] for r in rows]


def replay_plans(lhs, rhs, db, ufs, wrap, rows_l, rows_r, ordered, allpk=False):
    """Run both plans on the real executor over the model database.  Where the encoding leaves the relative order of
    rows unspecified (a table's physical order, ties of a sort) the model fixes one realisation; the physical order in
    which the rows are inserted is the matching free variable of the real engine, so the replay tries every insertion
    order of the model's rows (at most 36 combinations) before it calls a counterexample not reproducible."""
    import itertools
    first = None
    perms = [list(itertools.permutations(db[t])) for t in sorted(db)]
    combos = itertools.islice(itertools.product(*perms), 36)
    for n, combo in enumerate(combos):
        dbp = {t: [list(r) for r in rows] for t, rows in zip(sorted(db), combo)}
        r = _replay_plans_once(lhs, rhs, dbp, ufs, wrap, rows_l, rows_r, ordered, allpk)
        if first is None:
            first = r
        if r['reproduced']:
            if n:
                r['how']['note'] = (r['how'].get('note', '') + ' (reproduced with the model rows inserted in another order; tie order is unspecified in the encoding)').strip()
            return r
        if r['reproduced'] is None:
            return r
    return first


def _replay_plans_once(lhs, rhs, db, ufs, wrap, rows_l, rows_r, ordered, allpk=False):
    setup = ddl(allpk) + inserts(db)
    if wrap is not None:
        sc = ['scan', '$%d' % wrap, ['list', '$%d.0' % wrap, '$%d.1' % wrap], 'true']
        lhs, rhs = ['proj', ['list', lhs], sc], ['proj', ['list', rhs], sc]
    plans = [show(realize(lhs, ufs)), show(realize(rhs, ufs))]
    out, rc, err = rl('planrun', {'setup': setup, 'plans': plans}, timeout=120)
    res = [o for o in out if 'plan' in o]
    how = {'setup': setup, 'plans': plans}
    if len(res) != 2:
        return {'reproduced': None, 'how': how, 'note': 'replay did not run: ' + err[-300:]}

    def rows(o):
        if not o.get('ok') or o.get('panicked'):
            return None
        return o['rows']
    a, b = rows(res[0]), rows(res[1])
    how['engine_lhs'], how['engine_rhs'] = a, b
    if a is None and b is None:
        how['note'] = 'neither side is executable by the real executor: model-referenced'
        return {'reproduced': None, 'how': how}
    if a is None or b is None:
        # one side cannot run (e.g. apply / right_outer nested-loop join): compare the side that runs with the encoding's
        # prediction for it; the other side's rows are the encoding's
        run, pred_run = (b, rows_r) if a is None else (a, rows_l)
        if pred_run is None:
            how['note'] = 'one side not executable (%s)' % ((res[0] if a is None else res[1]).get('err') or 'panic')
            return {'reproduced': None, 'how': how}
        agrees = canon_rows(run) == canon_rows(to_engine_rows(pred_run))
        how['note'] = 'model-referenced: one side not executable (%s); executable side %s the encoding' % (
            (res[0] if a is None else res[1]).get('err') or 'panic', 'matches' if agrees else 'DIFFERS from')
        return {'reproduced': None if agrees else False, 'how': how}
    diff = canon_rows(a) != canon_rows(b)
    if not diff and ordered:
        diff = a != b
    return {'reproduced': diff, 'how': how}


# ------------------------------------------------------------------------------------------------ driver
def run(report, rules, K, thorough, select=None, replay=True):
    import multiprocessing as mp
    from .contracts import probe
    CONTRACTS.update(probe())
    report.cov['engine_contracts_probed'] = dict(CONTRACTS)
    nz = null_is_zero_from_source()
    report.cov['bounds'] = {'K_rows_per_table': K, 'K_rows_for_rules_over_3_tables': min(K, 2), 'int_range': 64, 'tables': NTABLES, 'columns_per_table': 2,
                            'scalar_rules': 'all operand values of each type instantiation (ints bounded to +-64, strings as ordered ints)'}
    tasks = []
    for rule in rules:
        if select and not select(rule):
            continue
        if rule.name.startswith('vector-index-scan') or rule.name == 'window-null':
            report.skip(rule.text(), 'vector / window operators are outside the encoded fragment')
            continue
        if rule.name == 'avg':
            report.skip(rule.text(), 'avg has no executor meaning of its own: it is defined by this rule')
            continue
        if is_scalar_rule(rule.lhs) and rule.rhs is not None:
            check_scalar_rule(rule, report, nz, replay)
            if rule.conds:
                check_scalar_rule_real_conditions(rule, report, replay)
        else:
            tasks += plan_rule_tasks(rule, report, K, thorough)
    if tasks:
        with mp.Pool(min(16, len(tasks))) as pool:
            results = pool.map(solve_task, tasks, chunksize=1)
        for res in results:
            absorb(report, res)
