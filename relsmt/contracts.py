"""Engine contracts that R's operator model takes from the executor rather than from SQL.

They are *probed* on the real build at the start of every run (a handful of concrete plans through executor::build), so
the model follows the tree under test; the probe only selects model parameters -- every verdict still comes from the
solver and every counterexample is replayed.
"""
from vlib.common import rl, Inconclusive

_cache = None


def probe():
    global _cache
    if _cache is not None:
        return _cache
    setup = ['create table t0(c0 int, c1 int)', 'create table t1(c0 int, c1 int)',
             'insert into t0 values (1, NULL)', 'insert into t1 values (2, NULL)']
    s0 = '(scan $0 (list $0.0 $0.1) true)'
    s1 = '(scan $1 (list $1.0 $1.1) true)'
    plans = ['(hashjoin inner true (list $0.1) (list $1.1) %s %s)' % (s0, s1),
             '(hashjoin semi true (list $0.1) (list $1.1) %s %s)' % (s0, s1),
             '(hashjoin semi (> $1.0 $0.0) (list $0.1) (list $1.1) %s %s)' % (s0, s1),
             '(mergejoin inner true (list $0.1) (list $1.1) %s %s)' % (s0, s1),
             '(agg (list (count-distinct $0.1)) %s)' % s0]
    out, rc, err = rl('planrun', {'setup': setup, 'plans': plans})
    res = [o for o in out if 'plan' in o]
    if len(res) != len(plans) or any((not o.get('ok')) or o.get('panicked') for o in res):
        raise Inconclusive('contract probe failed: %s %s' % (res, err[-300:]))
    n = [len(o['rows']) for o in res]
    if n[1] != n[2]:
        raise Inconclusive('contract probe: the two hash semi-join executors disagree on NULL keys (%s)' % n)
    o3, rc3, err3 = rl('planrun', {'setup': setup, 'plans': ['(topn null 1 (list $0.0) %s)' % s0, '(limit null 1 %s)' % s0]})
    r3 = [o for o in o3 if 'plan' in o]
    if len(r3) != 2:
        raise Inconclusive('contract probe (top-N without limit) failed: %s' % err3[-300:])
    topn_panics = bool(r3[0].get('panicked') or not r3[0].get('ok'))
    import shutil
    from vlib.common import scratch_dir
    sorted_runs = 0
    for attempt in range(2):
        d = scratch_dir('probe')
        stm = ['create table t(a int primary key, b int)'] + ['insert into t values (%d, %d)' % (k, k) for k in (5, 3, 6, 1, 4, 2)] + \
              ['pragma disable_optimizer', 'select a, b from t']
        o2, rc2, err2 = rl('sql', {'engine': 'disk', 'dir': d, 'block': 64, 'rowset': 256, 'stmts': stm})
        shutil.rmtree(d, ignore_errors=True)
        q = [o for o in o2 if o.get('sql') == 'select a, b from t']
        if not q or not q[0].get('ok'):
            raise Inconclusive('contract probe (disk scan order) failed: %s' % err2[-300:])
        sorted_runs += [r[0] for r in q[0]['rows']] == ['1', '2', '3', '4', '5', '6']
    # is the predicate pushed into a scan still evaluated on the scanned rows, or does the engine trust storage to apply it?
    # (`k > 1 AND k < 0` is pushed as a range and then folded to `false`, which storage does not recognise as a range)
    d = scratch_dir('probe')
    stm = ['create table t(k int primary key, v int)', 'insert into t values (0, 0), (1, 1), (2, 2)', 'select k from t where k > 1 and k < 0',
           'explain select k from t where k > 1 and k < 0']
    o4, rc4, err4 = rl('sql', {'engine': 'disk', 'dir': d, 'block': 4096, 'rowset': 1 << 20, 'stmts': stm})
    shutil.rmtree(d, ignore_errors=True)
    q4 = [o for o in o4 if o.get('sql') == stm[2]]
    if not q4 or not q4[0].get('ok'):
        raise Inconclusive('contract probe (scan filter) failed: %s' % err4[-300:])
    pushed = any('Scan' in str(o.get('rows')) and 'filter: false' in str(o.get('rows')) for o in o4 if o.get('sql') == stm[3])
    scan_filter_reapplied = (len(q4[0]['rows']) == 0) if pushed else True
    _cache = {'scan_filter_reapplied': scan_filter_reapplied, 'topn_offset_without_limit_panics': topn_panics, 'disk_scan_sorted_by_pk': sorted_runs == 2, 'hashjoin_null_eq': n[0] == 1, 'semijoin_null_eq': n[1] == 1, 'mergejoin_null_eq': n[3] == 1,
              'count_distinct_counts_null': res[4]['rows'][0][0] == '1'}
    return _cache
