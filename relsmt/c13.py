"""C13 A key-range scan returns exactly the rows in the range -- the planner -> storage contract."""
import itertools, json, re
from vlib.common import Report
from .rules_extract import load_rules
from . import rules_check, query_layer, corpus


def family(thorough):
    groups = []
    tables = [
        ('k0', 'create table k0(k int primary key, v int)', 'I'),
        ('k1', 'create table k1(v int, k int primary key)', 'I'),        # key is not the first column
        ('kb', 'create table kb(k bigint primary key, v int)', 'I'),     # key wider than the literal's type
        ('ks', "create table ks(k varchar primary key, v int)", 'S'),
    ]
    for name, ddl, ty in tables:
        c0, c1, c2 = ("'b'", "'d'", "'f'") if ty == 'S' else ('0', '1', '2')
        preds = []
        for op in ('=', '<', '<=', '>', '>='):
            preds.append('k %s %s' % (op, c1))
            preds.append('%s %s k' % (c1, op))
        preds += ['k >= %s AND k < %s' % (c0, c2), 'k > %s AND k <= %s' % (c0, c1), 'k > %s AND k > %s' % (c0, c1), 'k < %s AND k < %s' % (c2, c1),
                  'k > %s AND v = 1' % c0, 'v = 1 AND k <= %s' % c1, 'k = %s OR v = 0' % c1, 'k > %s AND v > 0 AND k < %s' % (c0, c2),
                  'k > NULL', 'k = NULL', 'NOT (k > %s)' % c1, 'k <> %s' % c1, 'k >= %s AND k <= %s' % (c1, c1),
                  # contradictory and degenerate ranges
                  'k > %s AND k < %s' % (c1, c0), 'k < %s AND k > %s' % (c0, c1), 'k >= %s AND k < %s' % (c2, c2), 'k = %s AND k = %s' % (c1, c2), 'k > %s AND k < %s AND v > 1' % (c1, c0)]
        if ty == 'I' and thorough:
            preds += ['k + 1 > 1', 'k > 0 + 1', 'k > v', 'k BETWEEN 0 AND 1', 'k IN (0, 1)']
        sels = ['k, v', 'v, k', 'v', 'k', '*'] if thorough else ['k, v', 'v', '*']
        qs = ['SELECT %s FROM %s WHERE %s' % (s, name, p) for p in preds for s in sels]
        qs += ['SELECT count(*) FROM %s WHERE k > %s' % (name, c0), 'SELECT k FROM %s WHERE k >= %s ORDER BY k' % (name, c1),
               'SELECT v FROM %s WHERE k < %s ORDER BY k DESC LIMIT 1' % (name, c2)]
        groups.append(('family:key-range:' + name, [ddl], qs))
    return groups


def main(tier, only=None):
    rep = Report('C13', 'translation_validation', './bin/check C13 --tier ' + tier)
    thorough = tier == 'thorough'
    rules, _, inv = load_rules()
    K = 4 if thorough else 3
    rep.cov['functions_encoded'] = ['rules::range::analyze_range and filter_scan_rule (filter-scan, filter-scan-1) through Optimizer::optimize with enable_range_filter_scan',
                                    "the KeyRange the executor's Scan arm derives from each pushed filter (same three statements, driver `plans`)"]
    rep.cov['trusted_base'] = ['storage contract as read from disk_rowset.rs::start_rowid and rowset_iterator.rs::next_batch_inner: the range is applied positionally to the first scanned column of a row-set stored in key order, under DataValue ordering; a non-Int32 start key panics',
                               'relsmt/sem.py operator model', 'z3']
    rep.assumptions = ['K rows per table, all inserted by one INSERT (one row-set, one block)', 'integers within +-64; strings as ordered integers',
                       'early termination across batches, delete vectors and multi-row-set layouts are outside the claim; block selection by first keys (start_rowid) is decided from its MIR for row-sets of 4-5 rows']
    sel = lambda r: r.name.startswith('filter-scan') and (not only or only in r.name)
    rules_check.run(rep, rules, K, thorough, select=sel)
    has_where = lambda sql: bool(re.search(r'\bwhere\b', sql, re.I))
    query_layer.run(rep, 'C13', K, thorough, 600 if thorough else 120, only=only, include_repo=True, select_sql=has_where, use_ranges=True, only_cfg='disk',
                    extra_groups=family(thorough))
    # storage side: the seek position of a range scan, from the MIR of DiskRowset::start_rowid (engine M)
    from mirsmt import c13m
    if not only or 'start_rowid' in only:
        c13m.run(rep, thorough)
    # the row-set iterator is a coroutine no solver back end reaches: its contract is probed on the real disk engine
    if not only:
        from . import conform_scan
        conform_scan.run(rep, thorough)
    return rep.finish()


def replay(path):
    d = json.load(open(path))
    print(json.dumps(d['replay'], indent=1)[:6000])
    return 0
