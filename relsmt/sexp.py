"""S-expression reader/printer for risinglight's plan language (egg RecExpr Display form)."""
import re

_TOK = re.compile(r"""\(|\)|'(?:[^']|'')*'|"(?:[^"\\]|\\.)*"|[^\s()]+""")


def parse(s):
    toks = _TOK.findall(s)
    pos = 0

    def p():
        nonlocal pos
        if pos >= len(toks):
            raise ValueError('unexpected end of s-expression: ' + s[:80])
        t = toks[pos]
        pos += 1
        if t == '(':
            lst = []
            while pos < len(toks) and toks[pos] != ')':
                lst.append(p())
            if pos >= len(toks):
                raise ValueError('unbalanced s-expression: ' + s[:80])
            pos += 1
            if lst == ['list']:
                return 'list'   # egg prints an empty (list) as the bare atom
            return lst
        if t == ')':
            raise ValueError('unexpected ) in ' + s[:80])
        return t

    r = p()
    # egg tolerates trailing ")" in patterns (e.g. add-or-distri has one too many); ignore the rest
    return r


def show(e):
    if isinstance(e, str):
        return e
    return '(' + ' '.join(show(x) for x in e) + ')'


def norm(s):
    """Whitespace-normalised text of an s-expression string."""
    return show(parse(s))


def atoms(e):
    if isinstance(e, str):
        yield e
    else:
        for x in e:
            yield from atoms(x)


def subst(e, m):
    """Substitute atoms by mapping m (atom -> sexp)."""
    if isinstance(e, str):
        return m.get(e, e)
    return [subst(x, m) for x in e]


def lst(e):
    """Elements of a `(list ...)` node; the bare atom `list` is the empty list."""
    if e == 'list':
        return []
    if isinstance(e, list) and e and e[0] == 'list':
        return e[1:]
    raise ValueError('not a list node: ' + show(e))
