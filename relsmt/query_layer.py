"""Orchestrates the query layer: corpora -> real plans (driver) -> solver tasks -> replay -> classification."""
import json, multiprocessing as mp, os, re, time
from vlib.common import rl, Inconclusive, log, seed, Findings
from . import corpus, tv
from .sexp import parse, show, lst
from .contracts import probe

TINY_STATS = {'on': False}     # set by the C01 check ("under any table statistics")
STATS = [None, {'big': 0}, {'big': 1}]   # which table (by position) gets a large mocked row count


def config_variants(table_names, thorough):
    out = []
    for base in tv.CONFIGS:
        out.append(dict(base))
        # tiny row estimates change which physical alternative is cheapest (e.g. hash vs sort aggregation): "under any
        # table statistics" -- every table estimated at 0 rows and at 2 rows (disk configuration; both in thorough)
        if TINY_STATS['on'] and (base['name'] == 'disk' or thorough):
            for tiny in (0, 2):
                c = dict(base)
                c['name'] = '%s+rows%d' % (base['name'], tiny)
                c['stats'] = {t: tiny for t in table_names}
                out.append(c)
        if len(table_names) >= 2:
            for i in ([0, 1] if thorough else [0]):
                st = {t: (100000 if j == i else 10) for j, t in enumerate(table_names)}
                c = dict(base)
                c['name'] = '%s+stats%d' % (base['name'], i)
                c['stats'] = st
                out.append(c)
    return out


def known_bad_rule_names():
    names = set()
    for e in Findings().entries:
        if e.get('status', 'open') == 'open' and e['key'].startswith('rule:'):
            names.add(e['key'][5:].split('|')[0])
    return sorted(names)


SLOW_PLANS = []      # (sql, configuration) pairs on which the optimizer did not finish in time: reported as skipped


def _plans_call(ddl, queries, configs, timeout):
    out, rc, err = rl('plans', {'setup': ddl, 'queries': queries, 'configs': configs}, timeout=timeout)
    cat, plans = None, []
    for o in out:
        if 'catalog' in o:
            cat = o['catalog']
        elif 'sql' in o:
            plans.append(o)
    return cat, plans, err


def get_plans(ddl, queries, configs):
    """Bind + optimize every query under every configuration (real binder / optimizer).  Large corpora are planned in
    batches.  A batch that does not come back in time is planned query by query, and a query on which the optimizer does
    not finish under some configuration (seen: a correlated NOT IN sub-query with every table estimated at 2 rows) is
    planned under the remaining configurations only; the (query, configuration) pair is recorded in SLOW_PLANS."""
    cat = None
    plans = []
    step = 40
    for i0 in range(0, max(len(queries), 1), step):
        batch = queries[i0:i0 + step]
        c, ps, err = _plans_call(ddl, batch, configs, 240)
        if c is not None:
            cat = c
            plans += ps
            continue
        if 'timeout' not in err:
            raise Inconclusive('driver `plans` failed: ' + err[-400:])
        for q in batch:
            c, ps, err = _plans_call(ddl, [q], configs, 45)
            if c is not None:
                cat = c
                plans += ps
                continue
            if 'timeout' not in err:
                raise Inconclusive('driver `plans` failed: ' + err[-400:])
            good = []
            for cfg in configs:
                c1, ps1, err1 = _plans_call(ddl, [q], [cfg], 20)
                if c1 is not None:
                    good.append(cfg)
                elif 'timeout' in err1:
                    SLOW_PLANS.append((q, cfg['name']))
                else:
                    raise Inconclusive('driver `plans` failed: ' + err1[-400:])
            if good:
                c, ps, err = _plans_call(ddl, [q], good, 60)
                if c is not None:
                    cat = c
                    plans += ps
    if cat is None:
        c, ps, err = _plans_call(ddl, [], configs, 60)
        cat = c
        if cat is None:
            raise Inconclusive('driver `plans` failed: ' + err[-400:])
    return cat, plans


def order_cols(bound):
    """Output column indices of the ORDER BY keys, when every key is a select-list item."""
    lim, off, ks, body = tv.root_shape(bound)
    if not ks:
        return None
    p = body
    if not (isinstance(p, list) and p[0] == 'proj'):
        return None
    items = [show(x) for x in lst(p[1])]
    idx = []
    for k in ks:
        e = k[1] if isinstance(k, list) and k[0] == 'desc' else k
        s = show(e)
        cand = [s, show(['ref', e])] + ([show(e[1])] if isinstance(e, list) and e[0] == 'ref' else [])
        hit = [i for i, it in enumerate(items) if it in cand]
        if not hit:
            return None
        idx.append(hit[0])
    return idx


def attribute(task, res):
    """Does the difference disappear when the rewrites already listed as known findings are disabled?"""
    if not task.get('ban'):
        return
    cfg = dict(task['cfgobj'])
    cfg['ban'] = task['ban']
    if task.get('use_ranges'):
        # If the optimized plan, read with ideal operator semantics (a scan's filter is applied as a filter), already equals
        # the bound plan, the rewrites are innocent: the difference comes from how the engine executes the pushed filter.
        # That is never attributed to a known-unsound rewrite.
        try:
            t0 = dict(task)
            t0['use_ranges'] = False
            r0 = tv.solve_pair(t0)
            if r0['verdict'] == 'unsat':
                res['without_known_bad_rules'] = {'verdict': 'not-applicable', 'why': 'the optimized plan is equivalent to the bound plan under ideal scan-filter semantics; the difference is in the engine contract'}
                return
        except Exception:
            pass
    try:
        cat, plans = get_plans(task['ddl'], [task['sql']], [cfg])
        o = plans[0]['opt'][cfg['name']]
        note = None
        if 'plan' not in o and cfg.get('stats'):
            # the optimizer itself fails under these statistics once the rules are banned (egg's extractor panics on
            # zero-row estimates): ask the same question under default statistics
            cfg2 = {k_: v_ for k_, v_ in cfg.items() if k_ != 'stats'}
            cat, plans = get_plans(task['ddl'], [task['sql']], [cfg2])
            o = plans[0]['opt'][cfg2['name']]
            note = 'with the listed rewrites banned the optimizer does not produce a plan under these statistics; attribution taken under default statistics'
        if 'plan' in o:
            t2 = dict(task)
            t2['opt'] = o['plan']
            t2['ranges'] = o.get('ranges', [])
            r2 = tv.solve_pair(t2)
            res['without_known_bad_rules'] = {'plan': o['plan'], 'verdict': r2['verdict']}
            if note:
                res['without_known_bad_rules']['note'] = note
    except Exception as ex:   # attribution is best-effort; failure means "not attributed"
        res['without_known_bad_rules'] = {'error': repr(ex)}


def optimizer_panic(task):
    """The real optimizer panicked on this query. It counts against `same answer with the optimizer on and off` only
    if the unoptimized plan runs: then `on` crashes where `off` answers."""
    db = {tid: [[(True if c[1] == 'B' else 1) for c in cols if c[1]]] for tid, cols in task['tabs'].items()}
    res = {'sql': task['sql'], 'cfg': task['cfg'], 'bound': task['bound'], 'opt': '(optimizer panicked at %s)' % task['where'], 'K': 0,
           'verdict': 'optimizer-panic', 'where': task['where'], 'db': db, 'strmap': {}, 'solver_s': 0.0}
    ins = []
    for tid, rows in sorted(db.items()):
        ins += tv.table_sql(task['names'], tid, rows, {})
    engine = 'disk' if task['cfg'].startswith('disk') else 'mem'
    stmts = list(task['ddl']) + ['create table zz_verif_dummy(z int)'] + ins + tv.stats_stmts(task['cfgobj']) + ['pragma disable_optimizer', task['sql'], 'pragma enable_optimizer', task['sql']]
    (out, rc, err), = tv.run_sql(engine, stmts)
    qs = [o for o in out if o.get('sql') == task['sql']]
    off_ok = bool(qs) and qs[0].get('ok') and not qs[0].get('panicked')
    on_ok = len(qs) == 2 and qs[1].get('ok') and not qs[1].get('panicked')
    res['replay'] = {'reproduced': (True if (off_ok and not on_ok) else (False if on_ok else None)),
                     'how': {'engine': engine, 'stmts': stmts, 'optimizer_off': qs[0].get('rows') if off_ok else 'fails', 'optimizer_on': 'ok' if on_ok else 'crash: ' + err[-200:]}}
    return res


def worker(task):
    if task.get('kind') == 'optimizer-panic':
        return optimizer_panic(task)
    res = tv.solve_pair(task)
    if res['verdict'] == 'dangling':
        # the optimized plan cannot be built: confirm on the real engine with any non-empty database
        db = {}
        for tid, cols in task['tabs'].items():
            db[tid] = [[(True if c[1] == 'B' else 1) for c in cols]]
        res['db'] = db
        res['strmap'] = {}
        res['replay'] = tv.replay_sql(task['ddl'], task['names'], res, task['cfg'], None, cfgobj=task['cfgobj'])
        attribute(task, res)
        return res
    if res['verdict'] != 'sat':
        return res
    B = parse(task['bound'])
    names = task['names']
    ocols = order_cols(B) if res.get('mode', '').startswith('ordered') else None
    if res.get('mode') == 'unordered-limit':
        res['replay'] = replay_unordered_limit(task, res)
    else:
        res['replay'] = tv.replay_sql(task['ddl'], names, res, task['cfg'], ocols, tries=4 if (task['cfg'].startswith('disk') and ocols is not None) else 1, cfgobj=task['cfgobj'], single_insert=bool(task.get('use_ranges')))
    attribute(task, res)
    return res


def replay_unordered_limit(task, res):
    """LIMIT without ORDER BY: the optimized answer must have the same cardinality and lie inside the full result."""
    sql = res['sql']
    full = re.sub(r'\s+(LIMIT\s+\d+)?(\s*OFFSET\s+\d+)?\s*$', '', sql, flags=re.I)
    ins = []
    for tid, rows in sorted(res['db'].items()):
        ins += tv.table_sql(task['names'], tid, rows, res.get('strmap') or {})
    engine = 'disk' if task['cfg'].startswith('disk') else 'mem'
    stmts = list(task['ddl']) + ['create table zz_verif_dummy(z int)'] + ins + tv.stats_stmts(task['cfgobj']) + ['pragma disable_optimizer', full, 'pragma enable_optimizer', sql, full]
    (out, rc, err), = tv.run_sql(engine, stmts)
    qs = [o for o in out if o.get('sql') in (full, sql)]
    full_on = qs[2] if len(qs) == 3 else None
    qs = qs[:2]
    how = {'engine': engine, 'stmts': stmts}
    if len(qs) != 2 or not all(o.get('ok') and not o.get('panicked') for o in qs):
        how['note'] = 'replay did not complete'
        return {'reproduced': None, 'how': how}
    fullrows, lim = qs[0]['rows'], qs[1]['rows']
    how['full_result'], how['optimizer_on'] = fullrows, lim
    want = len(res['rows_bound'])
    pool = [json.dumps(r) for r in fullrows]
    inside = True
    for r in lim:
        j = json.dumps(r)
        if j in pool:
            pool.remove(j)
        else:
            inside = False
    rep = (len(lim) != want) or not inside
    if not rep and full_on is not None and full_on.get('ok') and not full_on.get('panicked'):
        # which rows an unordered LIMIT keeps is unspecified: the window may hide a wrong full result on this run
        if sorted(map(json.dumps, full_on['rows'])) != sorted(map(json.dumps, fullrows)):
            how['full_result_optimizer_on'] = full_on['rows']
            how['note'] = 'the LIMIT window hides it on this run; the full result differs with the optimizer on'
            rep = True
    return {'reproduced': rep, 'how': how}


def build_tasks(report, ddl, items, K, thorough, origin, use_ranges=False, only_cfg=None):
    """items: list of sql strings. Returns solver tasks for every distinct (bound, opt) pair."""
    tabnames = [m.group(1).lower() for s in ddl for m in [re.match(r'\s*create\s+table\s+(?:if\s+not\s+exists\s+)?(\w+)', s, re.I)] if m]
    configs = config_variants(tabnames, thorough)
    if only_cfg:
        configs = [c for c in configs if c['name'].startswith(only_cfg)]
    cat, plans = get_plans(ddl, items, configs)
    while SLOW_PLANS:
        q_, c_ = SLOW_PLANS.pop()
        report.skip('%s [%s]' % (q_, c_), 'the optimizer does not finish within 20 s under this configuration: no plan to compare (termination of planning is C17, not claimed)')
        report.cov['optimizer_did_not_finish'] = report.cov.get('optimizer_did_not_finish', 0) + 1
    ban = known_bad_rule_names()
    tasks = []
    seen = set()
    contracts = probe()
    for p in plans:
        if 'bind_err' in p or 'parse_err' in p:
            report.cov['not_accepted_by_binder'] = report.cov.get('not_accepted_by_binder', 0) + 1
            continue
        bound = p['bound']
        for cfg in configs:
            o = p['opt'].get(cfg['name'])
            if not o:
                continue
            if o.get('panic'):
                sigp = ('panic', p['sql'], cfg['name'].split('+')[0])
                if sigp in seen:
                    continue
                seen.add(sigp)
                used = tv.used_tables(bound)
                tabs, variants, names = tv.enc_tables_from_catalog(cat, used)
                if tabs is None:
                    report.skip(p['sql'], 'optimizer panics; view in FROM')
                    continue
                tasks.append({'kind': 'optimizer-panic', 'sql': p['sql'], 'where': o.get('where', ''), 'ddl': ddl, 'names': names, 'tabs': tabs,
                              'cfg': cfg['name'], 'cfgobj': cfg, 'bound': bound, 'opt': '', 'K': 0})
                continue
            sig = (bound, o['plan'], cfg['name'].split('+')[0])
            if sig in seen:
                continue
            seen.add(sig)
            used = tv.used_tables(bound, o['plan'])
            tabs, variants, names = tv.enc_tables_from_catalog(cat, used)
            if tabs is None:
                report.skip(p['sql'], 'view in FROM')
                continue
            tabs = tv.strip_unsupported_cols(tabs, bound + ' ' + o['plan'])
            if tabs is None:
                report.skip(p['sql'], 'column type outside the encoded fragment (Int/Bool/String)')
                continue
            nt = len(tabs)
            k = K if nt <= 2 else max(2, K - 1)
            tasks.append({'sql': p['sql'], 'bound': bound, 'opt': o['plan'], 'ranges': o.get('ranges', []), 'tabs': tabs,
                          'variants': {'%s|%s' % k_: v for k_, v in variants.items()}, 'names': names, 'K': k, 'cfg': cfg['name'], 'cfgobj': cfg,
                          'ddl': ddl, 'contracts': contracts, 'use_ranges': use_ranges, 'ban': ban, 'origin': origin})
    return tasks


def absorb(report, prop, res):
    report.solver(res.get('solver_s', 0.0), 1)
    v = res['verdict']
    desc = '%s [%s]' % (res['sql'], res['cfg'])
    if v == 'optimizer-panic':
        rep = res['replay']
        if rep['reproduced'] is True:
            report.cov['programs'] += 1
            report.cov['disagreements_checked'] += 1
            out = report.counterexample('optimizer-panic@' + res['where'], 'the optimizer panics (at %s) on a query whose unoptimized plan runs: %s' % (res['where'], res['sql']), res, True)
            report.obligation(out == 'known')
        else:
            report.skip(desc, 'the optimizer panics at %s and the unoptimized plan is not executable either: nothing to compare (plan well-formedness is C17, not claimed)' % res['where'])
        return
    if v == 'skip':
        report.skip(desc, res['why'])
        return
    if v == 'vacuous':
        report.fail_inconclusive('vacuous encoding for ' + desc)
        return
    report.cov['programs'] += 1
    if v == 'dangling':
        rep = res.get('replay', {'reproduced': None})
        report.cov['disagreements_checked'] += 1
        attributed = res.get('without_known_bad_rules', {}).get('verdict') == 'unsat'
        what = res['why'] + ' in the optimized plan of: ' + res['sql']
        if attributed and rep['reproduced'] is not False and report.findings.lookup(prop, 'query:explained-by-known-unsound-rewrites'):
            report.cov['attributed_to_known_rules'] = report.cov.get('attributed_to_known_rules', 0) + 1
            report.counterexample('query:explained-by-known-unsound-rewrites', what, res, rep['reproduced'])
            report.obligation(True)
            return
        key = 'query-dangling:%s|%s' % (res['cfg'].split('+')[0], res['sql'])
        out = report.counterexample(key, what, res, rep['reproduced'])
        report.obligation(out == 'known')
        return
    report.cov['vacuity_witnesses'] += 1
    if v == 'unsat':
        report.obligation(True)
        report.sample({'sql': res['sql'], 'config': res['cfg'], 'bound': res['bound'], 'optimized': res['opt'], 'K': res['K'], 'mode': res.get('mode'),
                       'verdict': 'unsat (equivalent for every database within the bounds)'}, cap=8)
        return
    if v == 'unknown':
        report.obligation(False)
        report.fail_inconclusive('solver unknown on ' + desc)
        return
    rep = res.get('replay', {'reproduced': None})
    report.cov['disagreements_checked'] += 1
    attributed = res.get('without_known_bad_rules', {}).get('verdict') == 'unsat'
    what = 'optimizer changes the answer of `%s` [%s] on %s' % (res['sql'], res['cfg'], json.dumps(res['db']))
    if attributed and rep['reproduced'] is not False:
        # the difference disappears when the rewrites already listed as known findings are disabled
        key = 'query:explained-by-known-unsound-rewrites'
        e = report.findings.lookup(prop, key)
        if e is not None:
            report.cov['attributed_to_known_rules'] = report.cov.get('attributed_to_known_rules', 0) + 1
            out = report.counterexample(key, what, res, rep['reproduced'])
            report.obligation(True)
            report.sample({'sql': res['sql'], 'config': res['cfg'], 'verdict': 'sat', 'db': res['db'], 'class': 'known (vanishes when the listed unsound rewrites are banned)',
                           'replayed': rep['reproduced']}, cap=14)
            return
    # the statistics variant is part of the key when it is one of the tiny-estimate configurations (a finding recorded for
    # a zero-row estimate must not absorb a difference that shows under another estimate)
    tiny = [p_ for p_ in res['cfg'].split('+')[1:] if p_.startswith('rows')]
    key = 'query:%s|%s' % (res['cfg'].split('+')[0] + ''.join('+' + p_ for p_ in tiny), res['sql'])
    same_rows = sorted(map(json.dumps, res.get('rows_bound') or [])) == sorted(map(json.dumps, res.get('rows_opt') or [0]))
    if 'rows0' in tiny and str(res.get('mode', '')).startswith('ordered') and '(hashagg' in res['opt'] and '(order' not in res['opt'] and '(topn' not in res['opt'] and same_rows:
        # one recorded defect, by role: with every table estimated at zero rows the extractor keeps a hash aggregation and
        # the ORDER BY above it has been dropped -- the rows are right, their order is not
        key = 'query:disk+rows0:order-dropped-above-hash-aggregation'
        if rep['reproduced'] is False and report.findings.lookup(prop, key) is not None:
            # the order a hash aggregation emits depends on the hash of the (two or three) key values of the witness: on
            # some witnesses it happens to be the sorted one.  The defect is recorded and reproduced on other queries of
            # the run; this instance is not observable on this database and is counted as skipped, not as a failed replay
            report.skip(desc, 'instance of the recorded zero-estimate ORDER BY defect; the hash order of this witness happens to be sorted')
            report.obligation(True)
            return
    out = report.counterexample(key, what[:500], res, rep['reproduced'])
    report.obligation(out == 'known')
    report.sample({'sql': res['sql'], 'config': res['cfg'], 'verdict': 'sat', 'db': res['db'], 'class': out, 'replayed': rep['reproduced']}, cap=14)


def run(report, prop, K, thorough, n_generated, only=None, include_repo=True, select_sql=None, use_ranges=False, only_cfg=None, extra_groups=()):
    tasks = []
    for origin, ddl, qs in extra_groups:
        qs = [q for q in qs if not only or only in q]
        report.cov['family_queries'] = report.cov.get('family_queries', 0) + len(qs)
        if qs:
            tasks += build_tasks(report, list(ddl), qs, K, thorough, origin, use_ranges, only_cfg)
    gen = corpus.generated(n_generated, seed())
    sqls = [g['sql'] for g in gen if (select_sql is None or select_sql(g['sql']))]
    if only:
        sqls = [s for s in sqls if only in s]
    report.cov['generated_queries'] = len(sqls)
    if sqls:
        tasks += build_tasks(report, corpus.schema_ddl(), sqls, K, thorough, 'generated', use_ranges, only_cfg)
    if include_repo:
        groups = {}
        for origin, ddl, tabs, sql in corpus.repo_corpus():
            if select_sql is not None and not select_sql(sql):
                continue
            if only and only not in sql:
                continue
            groups.setdefault((origin, tuple(ddl)), []).append(sql)
        report.cov['repo_queries'] = sum(len(v) for v in groups.values())
        for (origin, ddl), qs in groups.items():
            try:
                tasks += build_tasks(report, list(ddl), qs, K, thorough, origin, use_ranges, only_cfg)
            except Inconclusive as ex:
                report.skip(origin, 'plans not obtained: %s' % ex)
    report.cov['plan_pairs'] = len(tasks)
    if not tasks:
        return
    with mp.Pool(16) as pool:
        results = pool.map(worker, tasks, chunksize=1)
    if os.environ.get('VERIF_DUMP'):
        json.dump([{k: v for k, v in r.items() if k in ('sql', 'cfg', 'verdict', 'K', 'solver_s', 'mode', 'why', 'note')} for r in results],
                  open(os.environ['VERIF_DUMP'], 'w'), indent=0)
    for res in results:
        absorb(report, prop, res)
