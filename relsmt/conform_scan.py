"""Conformance of the real range scan to the storage contract engine R reasons with (C13, storage side).

The row-set iterator (`RowSetIterator::next_batch_inner`) is an async coroutine outside the reach of the solver back
ends here; R uses a contract for it (sem.Enc.range_keep) and engine M decides the seek (`start_rowid`) from MIR.  This
module keeps the contract honest on the real build: over a small exhaustive domain of layouts -- sorted key sequences
with duplicates over {0,1,2} of up to 4 (6) rows, 1-3 rows per block (so that blocks, batches and block boundaries inside
runs of equal keys all occur), one or two row-sets, with and without a deleted row -- every comparison predicate on the
key is run with the range pushed down (optimizer on) and as a full scan followed by the filter (optimizer off), and the
answers must be the same.  Exhaustive enumeration of a small domain, not a solver decision."""
import itertools, json, multiprocessing as mp, shutil, time
from vlib.common import rl, scratch_dir

PREDS = ['k = %d', 'k < %d', 'k <= %d', 'k > %d', 'k >= %d', '%d = k', '%d < k', '%d >= k']
TWO = ['k >= 0 AND k < 2', 'k > 0 AND k <= 2', 'k >= 1 AND k <= 1', 'k > 0 AND v >= 0', 'k > 2', 'k < 0', 'k >= 1 AND v <> 1',
       # half-open ranges over adjacent integers, degenerate and contradictory ranges
       'k > 0 AND k <= 1', 'k >= 1 AND k < 2', 'k > 1 AND k <= 2', 'k >= 0 AND k < 1', 'k > 1 AND k < 2', 'k > 1 AND k < 0', 'k >= 2 AND k <= 0']


def queries():
    qs = []
    for p in PREDS:
        for c in (0, 1, 2):
            qs.append('select k, v from t where ' + p % c)
    qs += ['select k, v from t where ' + p for p in TWO]
    qs += ['select v from t where k >= 1', 'select v, k from t where k = 1', 'select count(*) from t where k > 0']
    return qs


def layouts(thorough):
    nmax = 6 if thorough else 4
    for n in range(1, nmax + 1):
        for keys in itertools.combinations_with_replacement((0, 1, 2), n):
            for rows_per_block in (1, 2, 3):
                for split in (None, n // 2) if n >= 2 else (None,):
                    for delete in ((None, 1) if n >= 2 else (None,)):
                        yield {'keys': list(keys), 'rows_per_block': rows_per_block, 'split': split, 'delete': delete}


def run_layout(lay):
    keys = lay['keys']
    rows = ['(%d, %d)' % (k, i) for i, k in enumerate(keys)]
    stmts = ['create table t(k int primary key, v int)', 'create table zz_verif_dummy(z int)']
    if lay['split']:
        # two INSERTs = two row-sets, each stored in key order; interleave so that both cover the key range
        a, b = rows[0::2], rows[1::2]
        stmts += ['insert into t values ' + ', '.join(a), 'insert into t values ' + ', '.join(b)]
    else:
        stmts.append('insert into t values ' + ', '.join(rows))
    if lay['delete'] is not None:
        stmts.append('delete from t where v = %d' % lay['delete'])
    stmts.append('set mock_rowcount_zz_verif_dummy = 1')
    qs = queries()
    stmts += qs + ['pragma disable_optimizer'] + qs + ['select count(*) from t']
    d = scratch_dir('scanconf')
    # the column builders reserve 16 bytes of the target block size; a non-nullable i32 takes 4 bytes per row in a plain block
    out, rc, err = rl('sql', {'engine': 'disk', 'dir': d, 'block': 16 + lay['rows_per_block'] * 4, 'rowset': 1 << 20, 'stmts': stmts}, timeout=300)
    shutil.rmtree(d, ignore_errors=True)
    res = []
    got = [o for o in out if o.get('sql') in qs]
    if len(got) != 2 * len(qs):
        return [{'kind': 'error', 'layout': lay, 'what': 'driver returned %d of %d results: %s' % (len(got), 2 * len(qs), err[-200:])}]
    on, off = got[:len(qs)], got[len(qs):]
    cnt = [o for o in out if o.get('sql') == 'select count(*) from t']
    expect = len(keys) - (1 if lay['delete'] is not None else 0)
    if not cnt or not cnt[-1].get('ok') or cnt[-1]['rows'] != [[str(expect)]]:
        return [{'kind': 'error', 'layout': lay, 'what': 'the table was not built as intended (%s rows expected): %s %s' % (expect, cnt[-1:] , err[-200:])}]
    for q, a, b in zip(qs, on, off):
        ra = a.get('rows') if a.get('ok') and not a.get('panicked') else 'FAILS: %s' % (a.get('err') or 'panic')
        rb = b.get('rows') if b.get('ok') and not b.get('panicked') else 'FAILS: %s' % (b.get('err') or 'panic')
        if isinstance(rb, str):
            res.append({'kind': 'skip', 'q': q})
            continue
        same = (not isinstance(ra, str)) and sorted(map(json.dumps, ra)) == sorted(map(json.dumps, rb))
        if same:
            res.append({'kind': 'ok'})
        else:
            res.append({'kind': 'differs', 'q': q, 'layout': lay, 'range_scan': ra, 'full_scan': rb, 'stmts': [s for s in stmts if not s.startswith('select')] + [q]})
    return res


def shape(q):
    import re
    return re.sub(r'-?\d+', 'N', q.split(' where ', 1)[1])


def run(rep, thorough):
    t0 = time.time()
    lays = list(layouts(thorough))
    with mp.Pool(16) as pool:
        results = pool.map(run_layout, lays, chunksize=4)
    n = ok = 0
    seen = set()
    for lay, res in zip(lays, results):
        for e in res:
            if e['kind'] == 'error':
                rep.fail_inconclusive('scan conformance: ' + e['what'])
                continue
            if e['kind'] == 'skip':
                continue
            n += 1
            if e['kind'] == 'ok':
                ok += 1
                continue
            feats = []
            if lay['split']:
                feats.append('two-rowsets')
            if lay['delete'] is not None:
                feats.append('deleted-row')
            key = 'storage:range-scan:%s' % shape(e['q'])
            if key in seen:
                continue
            seen.add(key)
            what = 'range scan differs from full scan + filter: `%s` over keys %s (%d rows per block%s%s): range scan %s, full scan %s' % (
                e['q'], lay['keys'], lay['rows_per_block'], ', two row-sets' if lay['split'] else '', ', one row deleted' if lay['delete'] is not None else '',
                json.dumps(e['range_scan']), json.dumps(e['full_scan']))
            out = rep.counterexample(key, what[:600], e, True)
            rep.obligation(out == 'known')
    rep.cov['scan_conformance'] = {'layouts': len(lays), 'queries_compared': n, 'agreeing': ok, 'wall_s': round(time.time() - t0, 1),
                                   'domain': 'sorted key sequences with duplicates over {0,1,2}, 1-%d rows, 1-3 rows per block, one or two row-sets, with/without one deleted row; =,<,<=,>,>= in both orientations with constants 0..2, two-sided and residual predicates' % (6 if thorough else 4),
                                   'note': 'exhaustive enumeration of a small domain on the real disk engine (not a solver decision): validates the storage contract of C13'}
