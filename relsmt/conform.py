"""Conformance of the real executors to the operator contracts engine R reasons with.

Engine R decides plan equivalences over an operator model (relsmt/sem.py).  The join / aggregation / sort executors
themselves are async coroutines that no solver back end in this sandbox reaches, so what R knows about them is a
*contract*.  This module keeps those contracts honest: over a small abstract domain that covers every case split of
the model (row present / absent, key NULL / equal / different, duplicate keys, empty sides, NULL payloads) it runs every
physical implementation of each operator on the real build, and compares

  (1) the implementations with each other            -- nested-loop vs hash vs merge join; simple vs hash vs sort
                                                        aggregation; sort+limit vs top-N,
  (2) each of them with SQLite on the equivalent SQL  -- the independent reading of what the operator means,
  (3) each of them with sem.py's prediction           -- is the contract R uses the behaviour of the code?

(1)/(2) disagreeing is a violation shown on the real code alone (reported, keyed by implementation and join type);
(3) alone disagreeing means R's model is wrong: inconclusive, never an alarm.  This is exhaustive enumeration of a small
domain, not a solver decision; it guards the trusted base of the solver-based checks and is reported as such."""
import itertools, json, multiprocessing as mp, os, sqlite3, time
from z3 import Solver, sat, BoolVal, IntVal, is_true
from vlib.common import rl, log
from .sem import Enc, model_rel, NotEncodable, EnginePanics, Unresolved
from .sexp import parse, show
from .contracts import probe

DDL = ['create table t0(c0 int primary key, c1 int)', 'create table t1(c0 int, c1 int)', 'create table t2(c0 int, c1 int)']
L = '(scan $1 (list $1.0 $1.1) true)'
R = '(scan $2 (list $2.0 $2.1) true)'
JT_SQL = {'inner': 'INNER', 'left_outer': 'LEFT', 'right_outer': 'RIGHT', 'full_outer': 'FULL'}
AGGS = '(list (count $1.1) (sum $1.1) (min $1.1) (max $1.1) rowcount (count-distinct $1.1))'
AGGS_SQL = 'count(c1), sum(c1), min(c1), max(c1), count(*), count(distinct c1)'


def cases(thorough):
    """[(name, family, {impl: plan text}, sqlite sql or None, ordered)]"""
    out = []
    for jt, kw in JT_SQL.items():
        impls = {'nested-loop': '(join %s (= $1.0 $2.0) %s %s)' % (jt, L, R),
                 'hash': '(hashjoin %s true (list $1.0) (list $2.0) %s %s)' % (jt, L, R),
                 'merge': '(mergejoin %s true (list $1.0) (list $2.0) (order (list $1.0) %s) (order (list $2.0) %s))' % (jt, L, R)}
        out.append(('join:%s' % jt, 'join', impls, 'SELECT t1.c0, t1.c1, t2.c0, t2.c1 FROM t1 %s JOIN t2 ON t1.c0 = t2.c0' % kw, False))
        impls2 = {'nested-loop': '(join %s (and (= $1.0 $2.0) (= $1.1 $2.1)) %s %s)' % (jt, L, R),
                  'hash': '(hashjoin %s true (list $1.0 $1.1) (list $2.0 $2.1) %s %s)' % (jt, L, R),
                  'merge': '(mergejoin %s true (list $1.0 $1.1) (list $2.0 $2.1) (order (list $1.0 $1.1) %s) (order (list $2.0 $2.1) %s))' % (jt, L, R)}
        out.append(('join2:%s' % jt, 'join2', impls2, 'SELECT t1.c0, t1.c1, t2.c0, t2.c1 FROM t1 %s JOIN t2 ON t1.c0 = t2.c0 AND t1.c1 = t2.c1' % kw, False))
    for jt, neg in (('semi', ''), ('anti', 'NOT ')):
        impls = {'nested-loop': '(join %s (= $1.0 $2.0) %s %s)' % (jt, L, R), 'hash': '(hashjoin %s true (list $1.0) (list $2.0) %s %s)' % (jt, L, R)}
        out.append(('join:%s' % jt, 'join', impls, 'SELECT c0, c1 FROM t1 WHERE %sEXISTS (SELECT 1 FROM t2 WHERE t1.c0 = t2.c0)' % neg, False))
        implsc = {'nested-loop': '(join %s (and (= $1.0 $2.0) (> $1.1 $2.1)) %s %s)' % (jt, L, R),
                  'hash': '(hashjoin %s (> $1.1 $2.1) (list $1.0) (list $2.0) %s %s)' % (jt, L, R)}
        out.append(('joinc:%s' % jt, 'join', implsc, 'SELECT c0, c1 FROM t1 WHERE %sEXISTS (SELECT 1 FROM t2 WHERE t1.c0 = t2.c0 AND t1.c1 > t2.c1)' % neg, False))
    out.append(('agg:group', 'agg', {'hash': '(hashagg (list $1.0) %s %s)' % (AGGS, L), 'sort': '(sortagg (list $1.0) %s (order (list $1.0) %s))' % (AGGS, L)},
                'SELECT c0, %s FROM t1 GROUP BY c0' % AGGS_SQL, False))
    out.append(('agg:simple', 'agg', {'simple': '(agg %s %s)' % (AGGS, L)}, 'SELECT %s FROM t1' % AGGS_SQL, False))
    out.append(('agg:distinct', 'agg', {'hash': '(hashagg (list $1.0 $1.1) list %s)' % L, 'sort': '(sortagg (list $1.0 $1.1) list (order (list $1.0 $1.1) %s))' % L},
                'SELECT DISTINCT c0, c1 FROM t1', False))
    for ks, ksql in (('(list $1.0 $1.1)', 'c0, c1'), ('(list (desc $1.0) $1.1)', 'c0 DESC, c1'), ('(list $1.1 (desc $1.0))', 'c1, c0 DESC')):
        out.append(('order:%s' % ksql, 'topn', {'sort': '(order %s %s)' % (ks, L)}, 'SELECT c0, c1 FROM t1 ORDER BY %s' % ksql, True))
        for l, o in (('1', '0'), ('2', '1'), ('null', '1'), ('0', '0'), ('1', '2')):
            lim = '-1' if l == 'null' else l
            out.append(('topn:%s:%s:%s' % (ksql, l, o), 'topn', {'sort+limit': '(limit %s %s (order %s %s))' % (l, o, ks, L), 'top-n': '(topn %s %s %s %s)' % (l, o, ks, L)},
                        'SELECT c0, c1 FROM t1 ORDER BY %s LIMIT %s OFFSET %s' % (ksql, lim, o), True))
    for l, o in (('1', '0'), ('2', '1'), ('null', '2'), ('0', '1')):
        lim = '-1' if l == 'null' else l
        out.append(('limit:%s:%s' % (l, o), 'topn', {'limit': '(limit %s %s %s)' % (l, o, L)}, 'SELECT c0, c1 FROM t1 LIMIT %s OFFSET %s' % (lim, o), True))
    return out


def databases(family, thorough):
    """Abstract domain per operator family: tables t1 (left / input) and t2 (right)."""
    n = 3 if thorough else 2
    if family == 'join':
        # key in {NULL, 0, 1}; payload distinguishes rows (and gives the residual condition both outcomes)
        def side(base):
            rows = [(k, base + i) for i in range(n) for k in (None, 0, 1)]
            for sz in range(0, n + 1):
                for ks in itertools.product((None, 0, 1), repeat=sz):
                    yield [[k, base + 2 * i] for i, k in enumerate(ks)]
        for l in side(1):
            for r in side(0):
                yield {'1': l, '2': r}
    elif family == 'join2':
        pool = [(0, 0), (0, None), (None, 0), (0, 1), (None, None)]
        m = 2
        sides = [list(c) for sz in range(0, m + 1) for c in itertools.product(pool, repeat=sz)]
        for l in sides:
            for r in sides:
                yield {'1': [list(x) for x in l], '2': [list(x) for x in r]}
    else:
        vals = [(k, v) for k in (None, 0, 1) for v in (None, 1, 2)]
        for sz in range(0, n + 1):
            for c in (itertools.product(vals, repeat=sz) if sz <= 2 else itertools.combinations_with_replacement(vals, sz)):
                yield {'1': [list(x) for x in c], '2': []}


def lit(v):
    return 'NULL' if v is None else str(v)


def setup_sql(db):
    out = list(DDL)
    for t in ('1', '2'):
        for row in db.get(t, []):
            out.append('insert into t%s values (%s)' % (t, ', '.join(lit(v) for v in row)))
    return out


def sqlite_rows(db, sql):
    con = sqlite3.connect(':memory:')
    for t in ('1', '2'):
        con.execute('create table t%s(c0 integer, c1 integer)' % t)
        for row in db.get(t, []):
            con.execute('insert into t%s values (?, ?)' % t, row)
    try:
        return [[None if v is None else str(v) for v in r] for r in con.execute(sql).fetchall()]
    except sqlite3.Error as ex:
        return 'ERROR %s' % ex


def model_rows(db, plans, contracts):
    """sem.py's prediction for each plan on the concrete database."""
    K = max(1, max(len(db.get('1', [])), len(db.get('2', []))))
    tabs = {t: [('$%s.0' % t, 'I', True), ('$%s.1' % t, 'I', True)] for t in ('1', '2')}
    enc = Enc(tabs, K=K, contracts=contracts)
    rels = {}
    for name, p in plans.items():
        try:
            rels[name] = enc.plan(parse(p))
        except (NotEncodable, EnginePanics, Unresolved) as ex:
            rels[name] = None
    s = Solver()
    s.add(enc.cons)
    for t in ('1', '2'):
        rows = db.get(t, [])
        for i, (pr, vals) in enumerate(enc.tabs[t]):
            if i < len(rows):
                s.add(pr)
                for v, x in zip(vals, rows[i]):
                    s.add(v.n == BoolVal(x is None))
                    if x is not None:
                        s.add(v.v == IntVal(x))
            else:
                s.add(pr == BoolVal(False))
    if s.check() != sat:
        return None
    m = s.model()
    out = {}
    for name, r in rels.items():
        out[name] = None if r is None else [[None if v is None else str(v) for v in row] for row in model_rel(m, r)]
    return out


def canon(rows):
    return sorted(json.dumps(r) for r in rows)


def work(job):
    """One process: a slice of (case index, db) pairs grouped by database."""
    fam, dbs, thorough, contracts = job
    cs = [c for c in cases(thorough) if c[1] == fam]
    batches = []
    for db in dbs:
        plans = [p for c in cs for p in c[2].values()]
        batches.append({'setup': setup_sql(db), 'plans': plans})
    out, rc, err = rl('planrun', {'batches': batches}, timeout=900)
    # split the output per batch
    per, cur = [], None
    for o in out:
        if 'batch' in o:
            cur = {}
            per.append(cur)
        elif cur is not None and 'plan' in o:
            cur[o['plan']] = o
    res = []
    if len(per) != len(dbs):
        return [{'error': 'planrun returned %d of %d batches: %s' % (len(per), len(dbs), err[-300:])}]
    for db, got in zip(dbs, per):
        for name, family, impls, sql, ordered in cs:
            real = {}
            for impl, p in impls.items():
                o = got.get(p)
                real[impl] = None if (o is None or not o.get('ok') or o.get('panicked')) else o['rows']
                if real[impl] is None:
                    real[impl] = 'FAILS: %s' % ((o or {}).get('err') or 'panic')
            ref = sqlite_rows(db, sql) if sql else None
            model = model_rows(db, impls, contracts)
            cmpf = (lambda x: x) if ordered else canon
            for impl, rows in real.items():
                entry = {'case': name, 'impl': impl, 'db': db, 'ordered': ordered}
                if isinstance(rows, str):
                    entry.update(kind='fails', what=rows)
                    res.append(entry)
                    continue
                others = {k: v for k, v in real.items() if k != impl and not isinstance(v, str)}
                bad_ref = ref is not None and not isinstance(ref, str) and cmpf(rows) != cmpf(ref)
                bad_peer = [k for k, v in others.items() if cmpf(v) != cmpf(rows)]
                bad_model = model is not None and model.get(impl) is not None and canon(model[impl]) != canon(rows)
                if bad_ref or (bad_peer and ref is None):
                    entry.update(kind='differs', rows=rows, reference=ref, peers={k: others[k] for k in bad_peer}, model=model.get(impl) if model else None)
                    res.append(entry)
                elif bad_model:
                    entry.update(kind='model', rows=rows, model=model[impl], reference=ref)
                    res.append(entry)
                else:
                    res.append({'case': name, 'impl': impl, 'kind': 'ok', 'compared_sqlite': ref is not None and not isinstance(ref, str), 'peers': len(others)})
    return res


def large_db():
    """Inputs that cross the executors' chunk size (1024 rows): keys with NULLs and duplicates, deterministic."""
    t1 = [[None if i % 17 == 0 else (i * 7) % 401, None if i % 5 == 0 else i] for i in range(2600)]
    t2 = [[None if i % 13 == 0 else (i * 11) % 397, None if i % 7 == 0 else 10000 + i] for i in range(1300)]
    return {'1': t1, '2': t2}


def run_large(rep, thorough, families):
    """Every implementation on inputs spanning several chunks, against SQLite (no model: R's encoding is for small K)."""
    db = large_db()
    setup = list(DDL)
    for t in ('1', '2'):
        rows = db[t]
        for i in range(0, len(rows), 500):
            setup.append('insert into t%s values %s' % (t, ', '.join('(%s, %s)' % (lit(a), lit(b)) for a, b in rows[i:i + 500])))
    cs = [c for c in cases(thorough) if c[1] in families and c[1] != 'join2' and not c[0].startswith(('topn:c1', 'order:c1', 'limit:'))]
    # windows larger than one chunk: the top-N heap must hold offset + limit rows
    ks, ksql = '(list $1.0 $1.1)', 'c0, c1'
    if 'topn' in families:
        for l, o in (('1100', '0'), ('10', '1500'), ('null', '5'), ('600', '600'), ('2000', '1000')):
            lim = '-1' if l == 'null' else l
            cs.append(('topn-big:%s:%s' % (l, o), 'topn', {'sort+limit': '(limit %s %s (order %s %s))' % (l, o, ks, L), 'top-n': '(topn %s %s %s %s)' % (l, o, ks, L)},
                       'SELECT c0, c1 FROM t1 ORDER BY %s LIMIT %s OFFSET %s' % (ksql, lim, o), True))
        # LIMIT / OFFSET windows that start, end or lie beyond a chunk boundary (input order = insertion order)
        for l, o in (('1100', '5'), ('10', '1500'), ('null', '1030'), ('1024', '1024'), ('1', '1023'), ('2', '2599'), ('5', '2600')):
            lim = '-1' if l == 'null' else l
            cs.append(('limit-big:%s:%s' % (l, o), 'topn', {'limit': '(limit %s %s %s)' % (l, o, L)}, 'SELECT c0, c1 FROM t1 LIMIT %s OFFSET %s' % (lim, o), True))
    if 'agg' in families:
        # FIRST / LAST across chunk boundaries, on rows where both aggregation paths agree on the meaning (no NULLs):
        # the running state must not win over a later chunk (LAST) nor lose to one (FIRST); reference computed here
        fl = '(list (first $1.1) (last $1.1) (count $1.1))'
        src = '(filter (> $1.1 0) %s)' % L
        vals = [b for _, b in db['1'] if b is not None and b > 0]
        ref_fl = [[str(vals[0]), str(vals[-1]), str(len(vals))]]
        cs.append(('agg:first-last', 'agg', {'simple': '(agg %s %s)' % (fl, src)}, ref_fl, False))
        cs.append(('agg:first-last-grouped', 'agg', {'hash': '(hashagg (list (> $1.1 0)) %s %s)' % (fl, src), 'sort': '(sortagg (list (> $1.1 0)) %s %s)' % (fl, src)},
                   [['true'] + ref_fl[0]], False))
    plans = []
    for c in cs:
        for impl, p in c[2].items():
            if c[1] == 'join' and impl == 'nested-loop' and c[0].split(':')[1] not in ('inner', 'left_outer'):
                continue
            plans.append((c, impl, p))
    out, rc, err = rl('planrun', {'setup': setup, 'plans': [p for _, _, p in plans]}, timeout=1200)
    got = {o['plan']: o for o in out if 'plan' in o}
    n = ok = 0
    for c, impl, p in plans:
        name, family, impls, sql, ordered = c
        o = got.get(p)
        if o is None:
            rep.fail_inconclusive('large-input probe did not run for %s via %s: %s' % (name, impl, err[-200:]))
            continue
        if not o.get('ok') or o.get('panicked'):
            rep.skip('%s via %s on chunk-crossing input' % (name, impl), 'not executable: %s' % (o.get('err') or 'panic'))
            continue
        ref = sql if isinstance(sql, list) else sqlite_rows(db, sql)
        if isinstance(ref, str):
            continue
        n += 1
        a, b = o['rows'], ref
        same = (a == b) if ordered else (canon(a) == canon(b))
        if same:
            ok += 1
            continue
        key = 'executor:%s:%s:chunk-crossing-input' % (name.split(':')[0] + ':' + name.split(':')[1] if name.startswith(('join', 'agg')) else name.split(':')[0], impl)
        extra = [r for r in a if r not in b][:3]
        missing = [r for r in b if r not in a][:3]
        what = 'the %s implementation of %s on inputs of 2600 / 1300 rows (several chunks, NULL and duplicate keys) returns %d rows, SQLite %d; e.g. only in risinglight %s, only in SQLite %s' % (
            impl, name, len(a), len(b), json.dumps(extra), json.dumps(missing))
        outc = rep.counterexample(key, what[:600], {'case': name, 'impl': impl, 'plan': p, 'sql': sql, 'rows_engine': len(a), 'rows_sqlite': len(b)}, True)
        rep.obligation(outc == 'known')
    rep.cov['executor_conformance_large'] = {'runs_compared': n, 'agreeing': ok, 'input': 't1 2600 rows, t2 1300 rows, keys mod ~400 with NULLs; compared with SQLite'}


def run(rep, prop, thorough, families=('join', 'join2', 'agg', 'topn')):
    t0 = time.time()
    contracts = probe()
    jobs = []
    for fam in families:
        if fam == 'join2' and not thorough:
            # two-column keys: a reduced pool in the quick tier is still 441 databases
            pass
        dbs = list(databases(fam, thorough))
        n = max(1, (len(dbs) + 15) // 16)
        for i in range(0, len(dbs), n):
            jobs.append((fam, dbs[i:i + n], thorough, contracts))
    with mp.Pool(16) as pool:
        results = pool.map(work, jobs, chunksize=1)
    n_ok = n_cmp = 0
    seen = set()
    stats = {}
    for res in results:
        for e in res:
            if 'error' in e:
                rep.fail_inconclusive('conformance run failed: ' + e['error'])
                continue
            n_cmp += 1
            st = stats.setdefault('%s/%s' % (e['case'].split(':')[0], e['impl']), {'runs': 0, 'agree': 0})
            st['runs'] += 1
            if e['kind'] == 'ok':
                n_ok += 1
                st['agree'] += 1
                continue
            case, impl = e['case'], e['impl']
            site = 'executor:%s:%s' % (case.split(':')[0] + ':' + case.split(':')[1] if case.startswith(('join', 'agg')) else case.split(':')[0], impl)
            if e['kind'] == 'fails':
                key = site + ':fails'
                if key in seen:
                    continue
                seen.add(key)
                # an operator the executor does not implement (e.g. right/full nested-loop join) is C17's subject, not a disagreement
                rep.skip('%s via %s' % (case, impl), 'not executable on the real build: %s' % e['what'][:120])
                continue
            if e['kind'] == 'model':
                key = site + ':model'
                if key in seen:
                    continue
                seen.add(key)
                rep.fail_inconclusive("R's operator model disagrees with the %s implementation of %s (which agrees with its reference) on %s: engine %s, model %s" % (
                    impl, case, json.dumps(e['db']), json.dumps(e['rows']), json.dumps(e['model'])))
                continue
            key = site
            if key in seen:
                continue
            seen.add(key)
            what = 'the %s implementation of %s returns %s on t1=%s t2=%s; %s' % (
                impl, case, json.dumps(e['rows']), json.dumps(e['db'].get('1')), json.dumps(e['db'].get('2')),
                ('SQLite: %s' % json.dumps(e['reference'])) if e.get('reference') is not None else ('other implementations: %s' % json.dumps(e['peers'])))
            out = rep.counterexample(key, what[:600], e, True)
            rep.obligation(out == 'known')
    rep.cov['executor_conformance'] = {'runs_compared': n_cmp, 'agreeing': n_ok, 'per_operator_implementation': stats,
                                       'domain': 'tables of 0-%d rows, keys in {NULL,0,1}, payloads NULL or distinct small integers; every implementation of every join type, aggregation, distinct, sort, top-N and limit' % (3 if thorough else 2),
                                       'note': 'exhaustive enumeration of a small abstract domain on the real build (not a solver decision): validates the operator contracts the solver-based checks rely on',
                                       'wall_s': round(time.time() - t0, 1)}
    run_large(rep, thorough, families)
    rep.cov['trusted_base'] = list(rep.cov.get('trusted_base', [])) + ['python sqlite3 %s as the reference reading of each operator in the executor conformance probes' % sqlite3.sqlite_version]


def run_hetero(rep, thorough):
    """Joins whose two sides have different schemas (column counts and types): the executors type their output and their
    NULL padding from the two sides' type lists, which the uniform (INT, INT) x (INT, INT) probes cannot tell apart.
    Nested-loop vs hash vs merge join for inner / left / right / full joins, each against the rows computed here."""
    l_rows = [(1, 'a'), (2, 'b'), (2, 'c'), (4, None), (None, 'n'), (7, 'g')]
    r_rows = [(2, 20, True), (2, 21, False), (3, 30, None), (4, 40, True), (None, 50, False)]
    setup = ['create table hl(a int, s varchar)', 'create table hr(c int, d bigint, e boolean)',
             'insert into hl values ' + ', '.join('(%s, %s)' % ('NULL' if a is None else a, 'NULL' if s is None else "'%s'" % s) for a, s in l_rows),
             'insert into hr values ' + ', '.join('(%s, %s, %s)' % ('NULL' if c is None else c, d, 'NULL' if e is None else str(e).lower()) for c, d, e in r_rows)]
    fmt = lambda v: None if v is None else (str(v).lower() if isinstance(v, bool) else str(v))
    def expected(jt):
        out, lm, rm = [], set(), set()
        for i, (a, s) in enumerate(l_rows):
            for j, (c, d, e) in enumerate(r_rows):
                if a is not None and c is not None and a == c:
                    out.append([fmt(a), fmt(s), fmt(c), fmt(d), fmt(e)])
                    lm.add(i)
                    rm.add(j)
        if jt in ('left_outer', 'full_outer'):
            out += [[fmt(a), fmt(s), None, None, None] for i, (a, s) in enumerate(l_rows) if i not in lm]
        if jt in ('right_outer', 'full_outer'):
            out += [[None, None, fmt(c), fmt(d), fmt(e)] for j, (c, d, e) in enumerate(r_rows) if j not in rm]
        return out
    L, R = '(scan $0 (list $0.0 $0.1) true)', '(scan $1 (list $1.0 $1.1 $1.2) true)'
    plans = []
    for jt in ('inner', 'left_outer', 'right_outer', 'full_outer'):
        impls = {'hash': '(hashjoin %s true (list $0.0) (list $1.0) %s %s)' % (jt, L, R),
                 'merge': '(mergejoin %s true (list $0.0) (list $1.0) (order (list $0.0) %s) (order (list $1.0) %s))' % (jt, L, R)}
        if jt in ('inner', 'left_outer'):
            impls['nested-loop'] = '(join %s (= $0.0 $1.0) %s %s)' % (jt, L, R)
        for impl, p in impls.items():
            plans.append((jt, impl, p))
    out, rc, err = rl('planrun', {'setup': setup, 'plans': [p for _, _, p in plans]}, timeout=300)
    got = {o['plan']: o for o in out if 'plan' in o}
    n = ok = 0
    for jt, impl, p in plans:
        o = got.get(p)
        if o is None:
            rep.fail_inconclusive('heterogeneous-schema join probe did not run for %s via %s: %s' % (jt, impl, err[-200:]))
            continue
        n += 1
        exp = expected(jt)
        rows = o['rows'] if o.get('ok') and not o.get('panicked') else None
        if rows is not None and canon(rows) == canon(exp):
            ok += 1
            continue
        what = 'the %s implementation of a %s join between (INT, VARCHAR) and (INT, BIGINT, BOOLEAN) inputs returns %s, expected %d rows%s' % (
            impl, jt, ('%d rows' % len(rows)) if rows is not None else ('an error / panic: %s' % (o.get('err') or 'panic')), len(exp),
            '' if rows is None else '; e.g. only in the engine %s, missing %s' % (json.dumps([r for r in rows if r not in exp][:2]), json.dumps([r for r in exp if r not in rows][:2])))
        outc = rep.counterexample('executor:join-hetero:%s:%s' % (jt, impl), what[:600], {'setup': setup, 'plan': p, 'rows': rows, 'expected': exp}, True)
        rep.obligation(outc == 'known')
    if n and n == ok:
        rep.obligation(True)
    rep.cov['executor_conformance_hetero'] = {'runs_compared': n, 'agreeing': ok}
