"""Recover the optimizer's rewrite rules from /repo's current source and join them with the compiled inventory.

The compiled inventory (driver `rl rules`, hook Optimizer::verif_rule_inventory) gives stage, name, lhs and the rhs when
the applier is a plain pattern.  Compiled objects do not expose side conditions or custom appliers, so those are
recovered from the source text of src/planner/rules/{expr,plan,order,range}.rs: every `rw!(...)` invocation and every
`pushdown(..)` call.  The two views must agree; anything unclassifiable is an Inconclusive, never a silent skip.
"""
import os, re
from .sexp import norm, parse, show
from vlib.common import REPO, rl, Inconclusive

RULE_FILES = ['src/planner/rules/expr.rs', 'src/planner/rules/plan.rs', 'src/planner/rules/order.rs',
              'src/planner/rules/range.rs']


class Rule:
    def __init__(self, name, lhs, rhs, conds, applier, file, line):
        self.name, self.lhs, self.rhs, self.conds, self.applier, self.file, self.line = name, lhs, rhs, conds, applier, file, line
        self.stages = []

    def key(self):
        c = ' '.join('if %s(%s)' % (c, ','.join(a)) for c, a in self.conds)
        rhs = self.rhs if self.rhs is not None else '{%s %s}' % (self.applier[0], self.applier[1])
        return 'rule:%s|%s=>%s|%s' % (self.name, self.lhs, rhs, c)

    def text(self):
        return self.key()[5:]


def _strip_comments(src):
    out, i, n = [], 0, len(src)
    while i < n:
        c = src[i]
        if c == '"':
            j = i + 1
            while j < n and src[j] != '"':
                j += 2 if src[j] == '\\' else 1
            out.append(src[i:j + 1])
            i = j + 1
        elif src.startswith('//', i):
            j = src.find('\n', i)
            j = n if j < 0 else j
            out.append(' ' * (j - i))
            i = j
        else:
            out.append(c)
            i += 1
    return ''.join(out)


def _balanced(src, i, open_='(', close=')'):
    """src[i] == open_; return index after the matching close, skipping string literals."""
    depth, n = 0, len(src)
    while i < n:
        c = src[i]
        if c == '"':
            i += 1
            while i < n and src[i] != '"':
                i += 2 if src[i] == '\\' else 1
        elif c == open_:
            depth += 1
        elif c == close:
            depth -= 1
            if depth == 0:
                return i + 1
        i += 1
    raise Inconclusive('unbalanced rule source')


_STR = r'"((?:[^"\\]|\\.)*)"'


def _unstr(s):
    # rust string continuation: backslash-newline eats following whitespace; plain newlines stay (whitespace anyway)
    return re.sub(r'\\\n\s*', '', s)


def parse_source(path):
    raw = open(path).read()
    # only the part before the unit tests
    cut = raw.find('#[cfg(test)]')
    src = _strip_comments(raw[:cut] if cut >= 0 else raw)
    rules = []
    for m in re.finditer(r'\brw!\(', src):
        end = _balanced(src, m.end() - 1)
        body = src[m.end():end - 1]
        line = src.count('\n', 0, m.start()) + 1
        mm = re.match(r'\s*' + _STR + r'\s*;\s*((?:' + _STR + r'\s*)+)=>\s*', body, re.S)
        if not mm:
            raise Inconclusive('cannot parse rw! at %s:%d' % (path, line))
        name = mm.group(1)
        lhs = ' '.join(_unstr(x) for x in re.findall(_STR, mm.group(2), re.S))
        rest = body[mm.end():]
        applier = None
        rhs = None
        if rest.lstrip().startswith('{'):
            i = rest.index('{')
            j = _balanced(rest, i, '{', '}')
            blk = rest[i + 1:j - 1]
            am = re.match(r'\s*(\w+)\(\s*' + _STR + r'\s*\)\s*$', blk, re.S)
            if not am:
                raise Inconclusive('unknown custom applier in rule %s at %s:%d' % (name, path, line))
            applier = (am.group(1), norm(_unstr(am.group(2)).replace('[', ' [ ').replace(']', ' ] ')) if False else _unstr(am.group(2)))
            rest = rest[j:]
        else:
            rm = re.match(r'\s*((?:' + _STR + r'\s*)+)', rest, re.S)
            if not rm:
                raise Inconclusive('cannot parse rhs of rule %s at %s:%d' % (name, path, line))
            rhs = ' '.join(_unstr(x) for x in re.findall(_STR, rm.group(1), re.S))
            rest = rest[rm.end():]
        conds = []
        pos = 0
        rest = rest.strip()
        while rest:
            cm = re.match(r'if\s+(\w+)\(([^)]*)\)\s*', rest)
            if not cm:
                raise Inconclusive('unparsed tail %r in rule %s at %s:%d' % (rest[:40], name, path, line))
            conds.append((cm.group(1), [a.strip().strip('"') for a in cm.group(2).split(',')]))
            rest = rest[cm.end():]
        rules.append(Rule(name, norm(lhs), norm(rhs) if rhs is not None else None, conds, applier, path, line))
    for m in re.finditer(r'(?<![\w.])pushdown\(\s*' + _STR + r'\s*,\s*' + _STR + r'\s*,\s*' + _STR + r'\s*,\s*' + _STR + r'\s*\)', src):
        a, aa, b, ba = m.groups()
        line = src.count('\n', 0, m.start()) + 1
        # mirrors fn pushdown(): name/searcher/applier built with format!
        rules.append(Rule('pushdown-%s-%s' % (a, b), norm('(%s %s (%s %s ?child))' % (a, aa, b, ba)),
                          norm('(%s %s (%s %s ?child))' % (b, ba, a, aa)), [], None, path, line))
    return rules


def check_pushdown_generator(path):
    """The `pushdown` generator must still have the shape the extractor mirrors."""
    src = open(path).read()
    m = re.search(r'fn pushdown\(a: &str, a_args: &str, b: &str, b_args: &str\) -> Rewrite \{(.*?)\n\}', src, re.S)
    if not m:
        raise Inconclusive('fn pushdown not found in ' + path)
    body = re.sub(r'\s+', ' ', m.group(1))
    want = ['format!("pushdown-{a}-{b}")', 'format!("({a} {a_args} ({b} {b_args} ?child))")',
            'format!("({b} {b_args} ({a} {a_args} ?child))")', 'Rewrite::new(name, pattern(&searcher), pattern(&applier))']
    for w in want:
        if w not in body:
            raise Inconclusive('fn pushdown changed shape (missing %s); extractor must be updated' % w)


def load_rules():
    """Source rules joined with the compiled inventory. Returns (rules, inventory)."""
    src_rules = []
    for f in RULE_FILES:
        src_rules += parse_source(os.path.join(REPO, f))
    check_pushdown_generator(os.path.join(REPO, 'src/planner/rules/plan.rs'))
    out, rc, err = rl('rules')
    if rc != 0 or not out:
        raise Inconclusive('driver `rules` failed: ' + err[-500:])
    inv = out[0]
    # unique compiled rules by (name, lhs, rhs)
    comp = {}
    for r in inv:
        k = (r['name'], norm(r['lhs']), norm(r['rhs']) if r['rhs'] else None)
        comp.setdefault(k, []).append(r['stage'])
    # unique source rules (and_rules() repeats some of rules())
    uniq = {}
    for r in src_rules:
        k = (r.name, r.lhs, r.rhs)
        if k in uniq:
            if uniq[k].conds != r.conds:
                raise Inconclusive('rule %s declared twice with different conditions' % r.name)
            continue
        uniq[k] = r
    missing_in_src = [k for k in comp if k not in uniq]
    # vector index rules and other sources compiled in but not parsed would show up here
    if missing_in_src:
        raise Inconclusive('compiled rules not found in the parsed sources: %s' % missing_in_src[:5])
    rules = []
    not_compiled = []
    for k, r in uniq.items():
        if k in comp:
            r.stages = sorted(set(comp[k]))
            rules.append(r)
        else:
            not_compiled.append(r)
    return rules, not_compiled, inv
