"""C02(b): translation validation of the binder against an independent reading of SQL.

For the generated corpus the query AST is known.  `lower()` compiles it into a reference plan by the textbook order
FROM -> WHERE -> GROUP BY / aggregates -> HAVING -> SELECT -> DISTINCT -> ORDER BY -> LIMIT/OFFSET, written in the
plan language and evaluated by relsmt.sem with SQL-standard operator semantics (three-valued IN / NOT IN, outer-join
padding, aggregates skipping NULLs).  Its meaning is compared, for every database within the bounds, with the meaning
of the plan the real binder produced and of the plan the engine will run.  A counterexample is replayed on risinglight
and on SQLite and reported only if risinglight differs from SQLite."""
import json, multiprocessing as mp, os, re, sqlite3, time
from z3 import Solver, And, Or, Not, sat, unsat, is_true
from vlib.common import rl, seed, log
from . import corpus, tv, sem
from .sem import Enc, NotEncodable, Unresolved, EnginePanics, bag_eq, bag_subset, card, model_tables, model_rel
from .sexp import parse, show, lst
from .contracts import probe
from .query_layer import get_plans, known_bad_rule_names

class Lower:
    """The query AST compiled by the textbook reading of SELECT; table / column ids are the catalog's."""

    def __init__(self, q, ids):
        self.q = q
        self.alias = {}
        self.derived = {}      # alias of a derived table -> {column name: the inner select item it stands for}
        self.tid = {t: i for t, (i, _) in ids.items()}
        self.cid = {t: c for t, (_, c) in ids.items()}

    def bind_alias(self, alias, table):
        """Occurrences of a table are numbered in FROM order; the binder prints later ones as "$t.c(k)"."""
        k = sum(1 for t, _ in self.alias.values() if t == table)
        self.alias[alias] = (table, k)

    def colkey(self, t, occ, j):
        return '$%d.%d' % (self.tid[t], j) if not occ else '"$%d.%d(%d)"' % (self.tid[t], j, occ)

    def col(self, e):
        if e[1] in self.derived:
            return self.derived[e[1]][e[2]]
        t, occ = self.alias.get(e[1], (e[1], 0))
        return self.colkey(t, occ, self.cid[t][e[2]])

    def expr(self, e):
        k = e[0]
        if k == 'col':
            return self.col(e)
        if k == 'lit':
            v = e[1]
            return 'null' if v is None else ('true' if v is True else 'false' if v is False else str(v))
        if k in ('and', 'or', '+', '-', '*', '=', '<>', '<', '<=', '>', '>='):
            return [k, self.expr(e[1]), self.expr(e[2])]
        if k == 'not':
            return ['not', self.expr(e[1])]
        if k == 'isnull':
            return ['isnull', self.expr(e[1])]
        if k == 'isnotnull':
            return ['not', ['isnull', self.expr(e[1])]]
        if k == 'inlist':
            return ['in', self.expr(e[1]), ['list'] + [self.expr(x) for x in e[2]]]
        if k in ('in', 'notin'):
            r = ['in', self.expr(e[1]), self.subquery(e[2])]
            return r if k == 'in' else ['not', r]
        if k in ('exists', 'notexists'):
            r = ['exists', self.subquery(e[1])]
            return r if k == 'exists' else ['not', r]
        if k in ('between', 'notbetween'):
            # SQL: x BETWEEN lo AND hi  ==  x >= lo AND x <= hi (three-valued); NOT BETWEEN is its negation
            x, lo, hi = self.expr(e[1]), self.expr(e[2]), self.expr(e[3])
            r = ['and', ['>=', x, lo], ['<=', x, hi]]
            return r if k == 'between' else ['not', r]
        if k == 'case':
            # the first WHEN whose condition is true decides; no ELSE means NULL
            r = 'null' if e[2] is None else self.expr(e[2])
            for c, v in reversed(e[1]):
                r = ['if', self.expr(c), self.expr(v), r]
            return r
        if k == 'agg':
            f, a = e[1], e[2]
            if f == 'count*':
                return 'rowcount'
            return [{'count': 'count', 'sum': 'sum', 'min': 'min', 'max': 'max', 'countd': 'count-distinct'}[f], self.expr(a)]
        raise NotEncodable('ast ' + k)

    def scan(self, t, occ=0):
        i = self.tid[t]
        return ['scan', '$%d' % i, ['list'] + [self.colkey(t, occ, j) for j in sorted(self.cid[t].values())], 'true']

    def subquery(self, sq):
        f = sq['from'][0]
        self.bind_alias(f[2], f[1])
        p = self.scan(f[1], self.alias[f[2]][1])
        if sq.get('where') is not None:
            p = ['filter', self.expr(sq['where']), p]
        return ['proj', ['list'] + [self.expr(x) for x in sq['select']], p]

    def plan(self):
        q = self.q
        p = None
        for i, f in enumerate(q['from']):
            if isinstance(f[1], dict):
                # derived table: lower the inner query on its own (its aliases are local), expose its select items by name
                inner = Lower(f[1], {t: (self.tid[t], self.cid[t]) for t in self.tid})
                inner.alias = dict(self.alias)      # occurrences keep counting across the whole statement
                s = inner.plan()
                for a_, v_ in inner.alias.items():
                    self.alias.setdefault('\0' + f[2] + '.' + a_, v_)
                names = f[1].get('names') or []
                m = {}
                for j, x in enumerate(f[1]['select']):
                    nm = (names[j] if j < len(names) and names[j] else (x[2] if x[0] == 'col' else None))
                    if nm:
                        m[nm] = inner.expr(x)
                self.derived[f[2]] = m
            else:
                self.bind_alias(f[2], f[1])
                s = self.scan(f[1], self.alias[f[2]][1])
            if i == 0:
                p = s
            elif f[0] == 'cross':
                p = ['join', 'inner', 'true', p, s]
            else:
                jt = {'inner': 'inner', 'left': 'left_outer', 'right': 'right_outer', 'full': 'full_outer'}[f[0]]
                p = ['join', jt, self.expr(f[3]), p, s]
        if q.get('where') is not None:
            p = ['filter', self.expr(q['where']), p]
        sel = [self.expr(x) for x in q['select']]
        aggs = []
        for x in q['select'] + ([q['having']] if q.get('having') is not None else []):
            self._collect_aggs(x, aggs)
        if q.get('group') is not None or aggs:
            keys = [self.expr(k) for k in (q.get('group') or [])]
            agg_s = []
            for a in aggs:
                if a not in agg_s:
                    agg_s.append(a)
            if keys:
                p = ['hashagg', ['list'] + keys, ['list'] + agg_s if agg_s else 'list', p]
            else:
                p = ['agg', ['list'] + agg_s, p]
            if q.get('having') is not None:
                p = ['filter', self.expr(q['having']), p]
        p = ['proj', ['list'] + sel, p]
        if q.get('distinct'):
            p = ['hashagg', ['list'] + sel, 'list', p]
        if q.get('order'):
            p = ['order', ['list'] + [(['desc', self.expr(k)] if d else self.expr(k)) for k, d in q['order']], p]
        lim = 'null' if q.get('limit') is None else str(q['limit'])
        off = str(q.get('offset') or 0)
        return ['limit', lim, off, p]

    def _collect_aggs(self, e, out):
        if not isinstance(e, tuple):
            return
        if e[0] == 'agg':
            out.append(self.expr(e))
            return
        for x in e[1:]:
            if isinstance(x, tuple):
                self._collect_aggs(x, out)
            elif isinstance(x, list):
                for y in x:
                    if isinstance(y, tuple) and y and isinstance(y[0], tuple):
                        for z in y:
                            self._collect_aggs(z, out)
                    else:
                        self._collect_aggs(y, out)


def compare(task, ref, other, which, K):
    """Is `other` (bound or optimized plan) equal to the reference for every database within the bounds?"""
    res = {'sql': task['sql'], 'which': which, 'K': K, 'cfg': 'mem'}
    t = {'sql': task['sql'], 'tabs': task['tabs'], 'cfg': 'mem', 'variants': task['variants'], 'contracts': task['contracts'], 'use_ranges': False, 'ranges': []}
    r = tv._solve(t, ref, other, K, res)
    r['which'] = which
    if r['verdict'] == 'dangling':
        r.update(verdict='skip', why='plan references a column its input does not produce (reported under C01)')
    elif r['verdict'] == 'sat' and r.get('mode') == 'engine-panic':
        r.update(verdict='skip', why='the plan makes the engine panic (reported under C01/C12): %s' % r.get('broken_req'))
    return r


def sqlite_run(db, sql):
    con = sqlite3.connect(':memory:')
    for t, cols in corpus.SCHEMA:
        con.execute('create table %s(%s)' % (t, ', '.join('%s %s' % (c, 'integer' if ty in ('I', 'B') else 'text') for c, ty, pk in cols)))
    for t, rows in db.items():
        for row in rows:
            con.execute('insert into %s values (%s)' % (t, ', '.join('?' * len(row))), [None if v is None else (int(v) if isinstance(v, bool) else v) for v in row])
    try:
        cur = con.execute(sql)
        return [list(r) for r in cur.fetchall()]
    except sqlite3.Error as ex:
        return 'ERROR: %s' % ex


def norm_cell(x):
    if x is None:
        return None
    if x in ('true', True):
        return '1'
    if x in ('false', False):
        return '0'
    return str(x)


def replay(task, res):
    """risinglight (optimizer off for the bound plan, on for the optimized plan) vs SQLite on the model database."""
    ins = []
    for tid, rows in sorted(res['db'].items()):
        ins += tv.table_sql(task['names'], tid, rows, {})
    stmts = corpus.schema_ddl() + ['create table zz_verif_dummy(z int)'] + ins + ['set mock_rowcount_zz_verif_dummy = 1', 'pragma disable_optimizer', task['sql'],
                                                                                   'pragma enable_optimizer', task['sql']]
    (out, rc, err), = tv.run_sql('mem', stmts)
    qs = [o for o in out if o.get('sql') == task['sql']]
    by_name = {task['names'][tid][0]: rows for tid, rows in res['db'].items()}
    lite = sqlite_run(by_name, task['sql'])
    how = {'stmts': stmts, 'sqlite': lite}

    def rows(o):
        if o is None or not o.get('ok') or o.get('panicked'):
            return None
        return [[norm_cell(c) for c in r] for r in o['rows']]
    off = rows(qs[0]) if len(qs) > 0 else None
    on = rows(qs[1]) if len(qs) > 1 else None
    how['risinglight_optimizer_off'], how['risinglight_optimizer_on'] = off, on
    if isinstance(lite, str):
        return {'reproduced': None, 'how': how, 'note': 'SQLite rejects the query: not comparable'}
    lite = [[norm_cell(c) for c in r] for r in lite]
    got = on if res['which'] == 'optimized' else off
    how['compared'] = 'optimizer ' + ('on' if res['which'] == 'optimized' else 'off')
    if got is None:
        return {'reproduced': None, 'how': how, 'note': 'risinglight cannot run this form'}
    if res.get('mode') == 'unordered-limit':
        full = sqlite_run(by_name, re.sub(r'\s+(LIMIT \d+)?(\s*OFFSET \d+)?$', '', task['sql']))
        pool = [json.dumps([norm_cell(c) for c in r]) for r in full] if not isinstance(full, str) else None
        bad = len(got) != len(lite)
        if pool is not None:
            for r in got:
                k = json.dumps(r)
                if k in pool:
                    pool.remove(k)
                else:
                    bad = True
        if not bad:
            # which rows an unordered LIMIT keeps is unspecified (hash order): the window may hide a wrong full result.
            # Compare the query without its LIMIT / OFFSET on both systems.
            base = re.sub(r'\s+(LIMIT \d+)?(\s*OFFSET \d+)?$', '', task['sql'])
            st2 = stmts[:-4] + ['pragma disable_optimizer' if res['which'] != 'optimized' else 'pragma enable_optimizer', base]
            (out2, rc2, err2), = tv.run_sql('mem', st2)
            q2 = [o for o in out2 if o.get('sql') == base]
            r2 = rows(q2[-1]) if q2 else None
            how['without_limit'] = {'risinglight': r2, 'sqlite': full if not isinstance(full, str) else None}
            if r2 is not None and pool is not None and sorted(json.dumps(r) for r in r2) != sorted(json.dumps([norm_cell(c) for c in r]) for r in full):
                how['note'] = 'the LIMIT window hides it on this run; the full result differs'
                bad = True
        return {'reproduced': bad, 'how': how}
    diff = sorted(json.dumps(r) for r in got) != sorted(json.dumps(r) for r in lite)
    if not diff and res.get('mode', '').startswith('ordered'):
        oc = task['order_cols']
        diff = [[r[i] for i in oc] for r in got] != [[r[i] for i in oc] for r in lite]
    return {'reproduced': diff, 'how': how}


def worker(task):
    t0 = time.time()
    try:
        ref = Lower(task['ast'], task['ids']).plan()
    except (NotEncodable, KeyError) as ex:
        return [{'sql': task['sql'], 'which': 'reference', 'verdict': 'skip', 'why': 'reference lowering: %r' % ex, 'solver_s': 0}]
    out = []
    for which, plan_txt in (('bound', task['bound']), ('optimized', task['opt'])):
        if plan_txt is None:
            continue
        t1 = time.time()
        k = task['K']
        while True:
            r = compare(task, ref, parse(plan_txt), which, k)
            if r['verdict'] != 'unknown' or k <= 2:
                break
            k -= 1
        r['reference'] = show(ref)
        r['plan'] = plan_txt
        if r['verdict'] == 'sat':
            r['replay'] = replay(task, r)
            if which == 'optimized' and task.get('ban'):
                # is the disagreement explained by rewrites already listed as known findings?
                try:
                    cat, plans = get_plans(corpus.schema_ddl(), [task['sql']], [{'name': 'mem', 'ban': task['ban']}])
                    o = plans[0]['opt']['mem']
                    if 'plan' in o:
                        r['without_known_bad_rules'] = compare(task, ref, parse(o['plan']), 'optimized', k)['verdict']
                except Exception as ex:
                    r['without_known_bad_rules'] = 'error %r' % ex
        r['solver_s'] = time.time() - t1
        out.append(r)
    return out


def family():
    """Enumerated interplay of DISTINCT / GROUP BY / HAVING / ORDER BY / LIMIT on single tables (ASTs + SQL): every select
    list made of grouping keys and aggregates (keys omitted, repeated, reordered), with and without DISTINCT."""
    out = []
    col = lambda t, c: ('col', t, c, 'I')
    cnt = ('agg', 'count*', None)
    for t, cols in (('u', ['x', 'y']), ('t', ['b', 'c', 'a'])):
        keysets = [[cols[0]], [cols[0], cols[1]], [cols[1], cols[0]]] + ([cols[:3]] if len(cols) > 2 else [])
        for ks in keysets:
            gk = [col(t, c) for c in ks]
            sels = [[gk[0]], [gk[-1]], list(gk), list(reversed(gk)), [gk[0], cnt], [cnt], [gk[-1], ('agg', 'sum', col(t, cols[1]))], [gk[0], ('agg', 'countd', col(t, cols[-1]))]]
            for sel in sels:
                for distinct in (False, True):
                    for having in (None, ('>', cnt, ('lit', 1, 'I'))):
                        for order in (None, [(sel[0], False)], [(sel[-1], True)]):
                            for lim, off in ((None, None), (1, 1)):
                                if lim is not None and order is None:
                                    continue
                                q = {'from': [('table', t, t)], 'where': None, 'select': list(sel), 'group': list(gk), 'having': having, 'distinct': distinct,
                                     'order': order, 'limit': lim, 'offset': off}
                                out.append({'sql': corpus.q_sql(q), 'ast': q})
        # DISTINCT without GROUP BY, over duplicates and NULLs
        for sel in ([col(t, cols[0])], [col(t, cols[0]), col(t, cols[1])], [col(t, cols[1]), col(t, cols[1])]):
            for order in (None, [(sel[0], True)]):
                q = {'from': [('table', t, t)], 'where': None, 'select': list(sel), 'group': None, 'having': None, 'distinct': True, 'order': order, 'limit': None, 'offset': None}
                out.append({'sql': corpus.q_sql(q), 'ast': q})
    # CASE with several, overlapping WHEN branches (first match wins), with and without ELSE; BETWEEN both ways
    x, y = col('u', 'x'), col('u', 'y')
    L = lambda v: ('lit', v, 'I')
    cases = [('case', [(('>', x, L(0)), L(1)), (('>', x, L(1)), L(2))], L(0)),
             ('case', [(('>', x, L(1)), L(2)), (('>', x, L(0)), L(1))], None),
             ('case', [(('isnull', x), L(-1)), (('=', x, y), L(5)), (('>=', x, L(0)), y)], x),
             ('case', [(('=', x, L(1)), y)], L(3))]
    preds = [('between', x, L(0), L(1)), ('notbetween', x, L(0), y), ('between', y, x, L(2)), ('between', x, L(2), L(0))]
    for c in cases:
        q = {'from': [('table', 'u', 'u')], 'where': None, 'select': [x, c], 'group': None, 'having': None, 'distinct': False, 'order': None, 'limit': None, 'offset': None}
        out.append({'sql': corpus.q_sql(q), 'ast': q})
        q2 = dict(q, select=[c, ('agg', 'count*', None)], group=[c])
        out.append({'sql': corpus.q_sql(q2), 'ast': q2})
    for p in preds:
        q = {'from': [('table', 'u', 'u')], 'where': p, 'select': [x, y], 'group': None, 'having': None, 'distinct': False, 'order': None, 'limit': None, 'offset': None}
        out.append({'sql': corpus.q_sql(q), 'ast': q})
    # derived tables in FROM (filtered, de-duplicated, aggregated with a named aggregate), alone and joined
    ux, uy = col('u', 'x'), col('u', 'y')
    sx, sy, sn = ('col', 's', 'x', 'I'), ('col', 's', 'y', 'I'), ('col', 's', 'n', 'I')
    base = {'where': None, 'group': None, 'having': None, 'distinct': False, 'order': None, 'limit': None, 'offset': None}
    d1 = dict(base, **{'from': [('table', 'u', 'u')], 'select': [ux, uy], 'names': ['x', 'y'], 'where': ('>', uy, L(0))})
    d2 = dict(base, **{'from': [('table', 'u', 'u')], 'select': [ux, uy], 'names': ['x', 'y'], 'distinct': True})
    d3 = dict(base, **{'from': [('table', 'u', 'u')], 'select': [ux, cnt], 'names': ['x', 'n'], 'group': [ux]})
    d4 = dict(base, **{'from': [('table', 'u', 'u')], 'select': [ux, uy], 'names': ['x', 'y'], 'where': ('isnotnull', ux)})
    ta, tb = col('t', 'a'), col('t', 'b')
    for q in (dict(base, **{'from': [('table', d1, 's')], 'select': [sx, sy], 'where': ('<', sx, L(2))}),
              dict(base, **{'from': [('table', d2, 's')], 'select': [sx, cnt], 'group': [sx]}),
              dict(base, **{'from': [('table', d3, 's')], 'select': [sx], 'where': ('>', sn, L(1))}),
              dict(base, **{'from': [('table', d3, 's')], 'select': [sn, sx], 'order': [(sn, True)]}),
              dict(base, **{'from': [('table', 't', 't'), ('left', d4, 's', ('=', tb, sx))], 'select': [ta, sy]}),
              dict(base, **{'from': [('table', 't', 't'), ('inner', d3, 's', ('=', tb, sx))], 'select': [ta, sn], 'where': ('>=', sn, L(1))}),
              dict(base, **{'from': [('table', d1, 's'), ('full', 't', 't', ('=', sx, tb))], 'select': [sx, ta]})):
        out.append({'sql': corpus.q_sql(q), 'ast': q})
    # self-joins: two occurrences of one table under different aliases
    for t, c0, c1 in (('u', 'x', 'y'), ('t', 'b', 'c')):
        a = lambda c: ('col', 'a1', c, 'I')
        b = lambda c: ('col', 'a2', c, 'I')
        for jt in ('inner', 'left', 'right', 'full'):
            for on in (('=', a(c0), b(c1)), ('and', ('=', a(c0), b(c0)), ('<', a(c1), b(c1)))):
                for sel, where in (([a(c0), b(c1)], None), ([a(c1), b(c1), a(c0)], ('>', b(c0), L(0))), ([b(c0)], ('isnull', a(c1)))):
                    q = {'from': [('table', t, 'a1'), (jt, t, 'a2', on)], 'where': where, 'select': sel, 'group': None, 'having': None, 'distinct': False, 'order': None, 'limit': None, 'offset': None}
                    out.append({'sql': corpus.q_sql(q), 'ast': q})
        q = {'from': [('table', t, 'a1'), ('inner', t, 'a2', ('=', a(c0), b(c0)))], 'where': None, 'select': [a(c0), ('agg', 'count*', None), ('agg', 'sum', b(c1))], 'group': [a(c0)], 'having': None,
             'distinct': False, 'order': [(a(c0), False)], 'limit': None, 'offset': None}
        out.append({'sql': corpus.q_sql(q), 'ast': q})
    seen, uniq = set(), []
    for g in out:
        if g['sql'] not in seen:
            seen.add(g['sql'])
            uniq.append(g)
    return uniq


def order_cols(q):
    if not q.get('order'):
        return []
    return [q['select'].index(k) for k, _ in q['order']]


def run(rep, thorough, only=None):
    K = 3 if thorough else 2
    gen = corpus.generated(600 if thorough else 150, seed() + 1000) + corpus.generated(300 if thorough else 100, seed() + 2000, rich=True)
    fam = family()
    gen = gen + fam
    if only:
        gen = [g for g in gen if only in g['sql']]
    # ORDER BY <integer literal> is an output-column ordinal in SQL and a constant in the generator's AST: not compared
    gen = [g for g in gen if not any(k[0] == 'lit' for k, _ in (g['ast'].get('order') or []))]
    cat, plans = get_plans(corpus.schema_ddl(), [g['sql'] for g in gen], [{'name': 'mem'}])
    by_sql = {p['sql']: p for p in plans if 'bound' in p}
    ids = {t['name']: (t['id'], {c['name']: c['id'] for c in t['columns']}) for t in cat}
    tabs, variants, names = tv.enc_tables_from_catalog(cat, {str(t['id']) for t in cat if t['name'] in dict(corpus.SCHEMA)})
    contracts = probe()
    ban = known_bad_rule_names()
    tasks = []
    for g in gen:
        p = by_sql.get(g['sql'])
        if not p:
            rep.cov['not_accepted_by_binder'] = rep.cov.get('not_accepted_by_binder', 0) + 1
            continue
        o = p['opt'].get('mem', {})
        def base_tables(q_):
            for f in q_['from']:
                if isinstance(f[1], dict):
                    yield from base_tables(f[1])
                else:
                    yield f[1]
        used = {str(ids[t_][0]) for t_ in base_tables(g['ast'])} | {str(t['id']) for t in cat if re.search(r' AS s\b', g['sql']) and (' %s AS s' % t['name']) in g['sql']}
        tasks.append({'sql': g['sql'], 'ast': g['ast'], 'bound': p['bound'], 'opt': o.get('plan'), 'K': K if len(used) <= 2 else 2, 'contracts': contracts, 'ban': ban,
                      'ids': ids, 'tabs': {t: c for t, c in tabs.items() if t in used}, 'variants': {'%s|%s' % k_: v for k_, v in variants.items()}, 'names': names,
                      'order_cols': order_cols(g['ast'])})
    rep.cov['binder_queries'] = len(tasks)
    with mp.Pool(16) as pool:
        results = pool.map(worker, tasks, chunksize=1)
    n_bound_only = 0
    for rs in results:
        verdicts = {r['which']: r['verdict'] for r in rs}
        for r in rs:
            rep.solver(r.get('solver_s', 0.0), 1)
            desc = '%s [%s plan]' % (r['sql'], r['which'])
            v = r['verdict']
            if v == 'skip':
                rep.skip(desc, r['why'])
                continue
            if v == 'vacuous':
                rep.fail_inconclusive('vacuous encoding: ' + desc)
                continue
            rep.cov['programs'] += 1
            if v == 'unsat':
                rep.obligation(True)
                rep.sample({'sql': r['sql'], 'compared': 'SQL meaning (from the AST) vs %s plan' % r['which'], 'plan': r['plan'][:300], 'verdict': 'equal for every database within the bounds'}, cap=6)
                continue
            if v == 'unknown':
                rep.skip(desc, 'solver gave no answer within its time limit at K=2')
                continue
            rp = r['replay']
            rep.cov['disagreements_checked'] += 1
            if rp['reproduced'] is None:
                if r['which'] == 'bound':
                    # the bound plan is not what runs; without the optimizer this query does not execute, so the disagreement
                    # cannot be shown on the real build.  What users get is the optimized plan, judged separately.
                    n_bound_only += 1
                    rep.skip(desc, 'bound plan differs from the reference but cannot be executed with the optimizer off (%s); optimized plan: %s' % (rp.get('note'), verdicts.get('optimized')))
                else:
                    rep.skip(desc, 'counterexample not replayable: %s' % rp.get('note'))
                continue
            if rp['reproduced'] is False:
                # risinglight agrees with SQLite on the model database: the reference reading or the operator model is off
                rep.counterexample('sqlmeaning:' + desc, 'reference and %s plan differ in the encoding' % r['which'], r, False)
                continue
            rl_rows = rp['how'].get('risinglight_optimizer_on' if r['which'] == 'optimized' else 'risinglight_optimizer_off')
            what = 'risinglight (%s plan) differs from standard SQL on `%s` with tables %s: risinglight %s, SQLite %s' % (
                r['which'], r['sql'], json.dumps({task_name(names, t): rows for t, rows in r['db'].items()}), json.dumps(rl_rows), json.dumps(rp['how'].get('sqlite')))
            if r['which'] == 'optimized' and r.get('without_known_bad_rules') == 'unsat' and rep.findings.lookup('C02', 'query:explained-by-known-unsound-rewrites'):
                rep.counterexample('query:explained-by-known-unsound-rewrites', what[:600], r, True)
                rep.obligation(True)
                rep.cov['attributed_to_known_rules'] = rep.cov.get('attributed_to_known_rules', 0) + 1
                continue
            key = 'sqlmeaning:%s|%s' % (r['which'], r['sql'])
            out = rep.counterexample(key, what[:600], r, True)
            rep.obligation(out == 'known')
            rep.sample({'sql': r['sql'], 'plan_kind': r['which'], 'db': r['db'], 'sqlite': rp['how'].get('sqlite'), 'risinglight': rl_rows, 'class': out}, cap=10)
    rep.cov['bound_plan_disagreements_not_executable'] = n_bound_only
    rep.cov['functions_encoded'] = list(rep.cov.get('functions_encoded', [])) + ['Binder::bind (select / join / group-by / having / distinct / order / limit / subquery lowering) via the plans it produces for the generated corpus',
                                                                                 'Optimizer::optimize (memory configuration) on the same queries']
    rep.cov['trusted_base'] = list(rep.cov.get('trusted_base', [])) + ['relsmt/c02b.py reference lowering of the query AST (guarded by SQLite 3.40: a disagreement SQLite does not confirm is inconclusive, never an alarm)', 'relsmt/sem.py', 'python sqlite3 as the confirming oracle in replays']


def task_name(names, tid):
    return names[tid][0] if tid in names else tid
