"""C06 / C19 checks on the compiled crate (engine K)."""
import json, time
from vlib.common import Report
from . import gen, run


def generic(prop, tier, harnesses, only, what_for, bounds, functions, assumptions, timeout_s, extra=None):
    rep = Report(prop, 'model_checking', './bin/check %s --tier %s' % (prop, tier))
    if only:
        harnesses = [h for h in harnesses if only in h[0]]
    res = run.run_all(harnesses, timeout_s)
    # a harness without a verdict (its CBMC process was starved or killed while 16 ran at once) is retried on its own
    again = [n for n, _ in harnesses if res.get(n, {}).get('status') in ('missing', 'error')]
    if again and len(again) <= 12:
        res2 = run.run_all(harnesses, timeout_s, jobs=4, only=again)
        for n in again:
            if res2.get(n, {}).get('status') in ('ok', 'failed'):
                res[n] = res2[n]
    states = transitions = 0
    for name, _ in harnesses:
        r = res.get(name, {'status': 'missing'})
        rep.solver(r.get('time') or 0.0, 1)
        states += 1
        transitions += r.get('checks') or 0
        if r['status'] == 'ok':
            if r.get('cover') and r['cover'][0] != r['cover'][1]:
                rep.obligation(False)
                rep.fail_inconclusive('vacuous harness %s: cover property unsatisfied' % name)
                continue
            rep.cov['vacuity_witnesses'] += 1
            rep.obligation(True)
            rep.sample({'harness': name, 'verdict': 'VERIFICATION SUCCESSFUL', 'cbmc_checks': r.get('checks'), 'seconds': r.get('time')}, cap=10)
            continue
        if r['status'] in ('missing', 'error'):
            rep.obligation(False)
            rep.fail_inconclusive('harness %s: no verdict (%s; time/memory cap or tool error)' % (name, r['status']))
            continue
        if r.get('unwind'):
            rep.obligation(False)
            rep.fail_inconclusive('harness %s: unwinding assertion failed (bound too small)' % name)
            continue
        msg, vals = run.playback_bytes(name)
        line = run.native_replay(name, vals) if vals is not None else 'REPLAY not run (no concrete playback)'
        reproduced = True if line.startswith('REPLAY panic') else (False if line.startswith('REPLAY ok') else None)
        rep.cov['traces_validated_against_impl'] = rep.cov.get('traces_validated_against_impl', 0) + (1 if reproduced else 0)
        key = 'kani:' + name
        what = '%s: %s fails (%s) on inputs %s; native replay: %s' % (what_for, name, '; '.join(r.get('failed_checks', []))[:200], vals, line)
        out = rep.counterexample(key, what[:500], {'harness': name, 'failed_checks': r.get('failed_checks'), 'inputs': vals, 'native_replay': line}, reproduced)
        rep.obligation(out == 'known')
        rep.sample({'harness': name, 'verdict': 'FAILED', 'inputs': vals, 'native_replay': line, 'class': out}, cap=14)
    rep.cov['states'], rep.cov['transitions'] = max(states, 1), max(transitions, 1)
    rep.cov.setdefault('traces_validated_against_impl', 0)
    rep.cov['bounds'] = bounds
    rep.cov['functions_encoded'] = functions
    rep.cov['trusted_base'] = ['Kani 0.68 / CBMC 6.11 (cadical) on the crate compiled with --cfg risinglight_verif', 'unwinding assertions on; a kani::cover!(true) vacuity witness per harness']
    rep.assumptions = assumptions
    if extra is not None and not only:
        extra(rep)
    return rep.finish()


def c19(tier, only=None):
    thorough = tier == 'thorough'
    return generic('C19', tier, gen.c19_harnesses(thorough), only, 'DataValue relation laws',
                   {'variants': 'Null, Bool, Int16, Int32, Int64, Float64, Date, Timestamp, TimestampTz, Interval(months, days), String and Blob of <= 2 bytes',
                    'operands': 'same-variant operands (plus NULL vs each variant); all payload values'},
                   ['<DataValue as PartialEq/Eq/PartialOrd/Ord/Hash> (derived) and the payload types\' impls', 'DataValue::{min, max}', 'SecondaryRowHandler <-> i64'],
                   ['print/parse round trips other than that of Interval, Decimal and Vector are outside (string formatting does not terminate under CBMC)',
                    'agreement of the SQL comparison kernels with cmp on non-NULL values is decided under C14'], 2400 if thorough else 1500,
                   extra=lambda rep: (__import__('mirsmt.c19m', fromlist=['run']).run(rep, thorough), __import__('mirsmt.c19ops', fromlist=['run']).run(rep, thorough), __import__('relsmt.c12', fromlist=['ordered_scan_probes']).ordered_scan_probes(rep, thorough)))


def c06(tier, only=None):
    thorough = tier == 'thorough'
    return generic('C06', tier, gen.c06_harnesses(thorough), only, 'column encoding round trip',
                   {'codecs': 'every value of bool, i16, i32, i64, F64 (bitwise), Date, Timestamp, TimestampTz, Interval',
                    'plain blocks': '1-3 values (quick: 2), every listed skip/batch read pattern, all values symbolic'},
                   ['<T as PrimitiveFixedWidthEncode>::{encode, decode, WIDTH}', 'PlainPrimitiveBlockBuilder::{append, estimated_size, finish}',
                    'PlainPrimitiveBlockIterator::{new, skip, next_batch, remaining_items}'],
                   ['nullable / RLE / dictionary / char / blob block iterators, column builders and iterators (moka, async) are outside: they exhaust memory under CBMC or are not executable',
                    'Decimal codec (u128 serialization) is outside'], 3000 if thorough else 1500,
                   extra=lambda rep: (__import__('mirsmt.c06m', fromlist=['run']).run(rep, thorough), __import__('mirsmt.c06m', fromlist=['run_rle']).run_rle(rep, thorough), __import__('mirsmt.c06m', fromlist=['run_blob']).run_blob(rep, thorough), __import__('mirsmt.c06m', fromlist=['run_char']).run_char(rep, thorough), __import__('mirsmt.c06c', fromlist=['run_skip']).run_skip(rep, thorough), __import__('mirsmt.c06m', fromlist=['run_rle_builder']).run_rle_builder(rep, thorough), __import__('mirsmt.c06m', fromlist=['run_dict_builder']).run_dict_builder(rep, thorough), __import__('mirsmt.c06m', fromlist=['run_dict_iterator']).run_dict_iterator(rep, thorough), __import__('mirsmt.c06p', fromlist=['run']).run(rep, thorough)))
