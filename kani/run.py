"""Engine K runner: regenerate the harness crate, run Kani/CBMC on all harnesses in parallel, replay failures natively."""
import os, re, shutil, subprocess, time
from vlib.common import VERIF, REPO, TARGET, REPO_TOOLCHAIN, GUARD_FLAGS, Inconclusive, log, point_manifest_at_repo
from . import gen

KDIR = os.path.join(VERIF, 'kani')


def _env(kani=True):
    env = dict(os.environ)
    env['CARGO_NET_OFFLINE'] = 'true'
    env['RUSTFLAGS'] = GUARD_FLAGS
    env['RUST_BACKTRACE'] = '0'
    if not kani:
        env['RUSTUP_TOOLCHAIN'] = REPO_TOOLCHAIN
    else:
        env.pop('RUSTUP_TOOLCHAIN', None)
    return env


def prepare(harnesses):
    point_manifest_at_repo(KDIR)
    shutil.copyfile(os.path.join(REPO, 'Cargo.lock'), os.path.join(KDIR, 'Cargo.lock'))
    os.makedirs(os.path.join(KDIR, 'src', 'bin'), exist_ok=True)
    gen.write_lib(os.path.join(KDIR, 'src', 'lib.rs'), harnesses)
    gen.write_replay(os.path.join(KDIR, 'src', 'bin', 'replay.rs'), harnesses)


def run_all(harnesses, timeout_s, jobs=16, only=None):
    """Returns {harness: dict(status='ok'|'failed'|'error'|'missing', time, cover, failed_checks)}"""
    prepare(harnesses)
    cmd = ['cargo', 'kani', '--target-dir', os.path.join(TARGET, 'kani'), '--output-format', 'terse', '-j', str(jobs)]
    if only:
        for h in only:
            cmd += ['--harness', h]
    t0 = time.time()
    try:
        p = subprocess.run(cmd, cwd=KDIR, env=_env(), capture_output=True, text=True, timeout=timeout_s)
        out = p.stdout + '\n' + p.stderr
    except subprocess.TimeoutExpired as ex:
        out = (ex.stdout or b'').decode(errors='replace') if isinstance(ex.stdout, bytes) else (ex.stdout or '')
        out += '\nTIMEOUT'
    log('cargo kani: %.0fs' % (time.time() - t0))
    open(os.path.join(TARGET, 'kani-last.log'), 'w').write(out)
    if 'error: could not compile' in out or 'Failed to execute cargo' in out:
        log(out[-3000:])
        raise Inconclusive('the Kani harness crate does not compile against /repo')
    return parse(out, [h for h, _ in harnesses] if not only else only)


def parse(out, names):
    res = {n: {'status': 'missing'} for n in names}
    cur = {}      # thread -> harness
    lines = out.split('\n')
    i = 0
    single = None
    while i < len(lines):
        ln = lines[i]
        m = re.match(r'(?:Thread (\d+): )?Checking harness (?:h::)?(\w+)\.\.\.', ln)
        if m:
            if m.group(1) is None:
                single = m.group(2)
            else:
                cur[m.group(1)] = m.group(2)
            i += 1
            continue
        m = re.match(r'Thread (\d+): *$', ln)
        if m or ln.startswith('VERIFICATION RESULT'):
            h = cur.get(m.group(1)) if m else single
            blk = []
            j = i + 1
            while j < len(lines) and not lines[j].startswith('Verification Time'):
                blk.append(lines[j])
                j += 1
                if j - i > 60:
                    break
            tline = lines[j] if j < len(lines) else ''
            text = '\n'.join(blk)
            if h in res:
                r = res[h]
                r['time'] = float(re.search(r'([\d.]+)s', tline).group(1)) if re.search(r'([\d.]+)s', tline) else None
                if 'VERIFICATION:- SUCCESSFUL' in text:
                    r['status'] = 'ok'
                elif 'VERIFICATION:- FAILED' in text:
                    r['status'] = 'failed'
                    r['failed_checks'] = re.findall(r'Failed Checks: (.*)', text)
                else:
                    r['status'] = 'error'
                cm = re.search(r'(\d+) of (\d+) cover properties satisfied', text)
                r['cover'] = (int(cm.group(1)), int(cm.group(2))) if cm else None
                um = re.search(r'(\d+) of (\d+) failed', text)
                r['checks'] = int(um.group(2)) if um else None
                if 'unwinding assertion' in text and r['status'] == 'failed':
                    r['unwind'] = True
            i = j + 1
            continue
        i += 1
    return res


def playback_bytes(harness):
    """Concrete inputs of the failing assertion, from Kani's concrete playback: list of byte lists."""
    cmd = ['cargo', 'kani', '--target-dir', os.path.join(TARGET, 'kani'), '--output-format', 'terse', '-Z', 'concrete-playback',
           '--concrete-playback=print', '--harness', harness]
    p = subprocess.run(cmd, cwd=KDIR, env=_env(), capture_output=True, text=True, timeout=1800)
    out = p.stdout
    tests = re.findall(r'/// Check for `(\w+)`: "(.*?)"\s*\n\s*#\[test\]\s*fn \w+\(\) \{\s*let concrete_vals: Vec<Vec<u8>> = vec!\[(.*?)\];\s*kani::concrete_playback_run', out, re.S)
    for kind, msg, body in tests:
        if kind != 'cover':
            vals = [[int(x) for x in v.split(',') if x.strip()] for v in re.findall(r'vec!\[([^\]]*)\]', body)]
            return msg, vals
    return None, None


_replay_built = {}


def ensure_replay_fn(name):
    """Make sure src/bin/replay.rs holds the replay-only function `name` (regenerate it with the extras when it does not)."""
    path = os.path.join(KDIR, 'src', 'bin', 'replay.rs')
    try:
        have = ('fn %s(' % name) in open(path).read()
    except OSError:
        have = False
    point_manifest_at_repo(KDIR)
    shutil.copyfile(os.path.join(REPO, 'Cargo.lock'), os.path.join(KDIR, 'Cargo.lock'))
    if not have:
        os.makedirs(os.path.dirname(path), exist_ok=True)
        gen.write_replay(path, [])
        _replay_built.clear()


def native_replay(harness, vals, release=False):
    """Run the same harness body natively on the concrete inputs. Returns the REPLAY line."""
    key = 'release' if release else 'dev'
    if key not in _replay_built:
        cmd = ['cargo', 'build', '--bin', 'replay', '--target-dir', os.path.join(TARGET, 'kani-replay')] + (['--release'] if release else [])
        p = subprocess.run(cmd, cwd=KDIR, env=_env(False), capture_output=True, text=True)
        if p.returncode != 0:
            log(p.stderr[-2000:])
            raise Inconclusive('native replay binary does not build')
        _replay_built[key] = os.path.join(TARGET, 'kani-replay', 'release' if release else 'debug', 'replay')
    arg = ';'.join(','.join(str(b) for b in v) for v in vals)
    p = subprocess.run([_replay_built[key], harness, arg], capture_output=True, text=True, env=_env(False), timeout=120)
    for ln in p.stdout.split('\n'):
        if ln.startswith('REPLAY'):
            if 'unknown harness' in ln:
                raise Inconclusive('the native replay binary has no function %s (stale src/bin/replay.rs?)' % harness)
            return ln
    return 'REPLAY crashed: ' + p.stderr[-200:]
