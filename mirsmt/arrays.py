"""Symbolic arrays for engine M: PrimitiveArray { valid: BitVec, data: Box<[T]> } with concrete length."""
from z3 import BitVec, Bool
from .vm import BV, FP, Struct, Enum, Seq, Bits, Ref, Cell

PRIM = {'Bool': None, 'Int16': ('i16', 16), 'Int32': ('i32', 32), 'Int64': ('i64', 64), 'Date': ('i32', 32)}
WRAPPED = {'Date'}     # newtype payloads: PrimitiveArray<Date> holds Date(i32)


def sym_array(name, variant, n):
    """ArrayImpl::<variant>(Arc<PrimitiveArray>) with n rows; returns (value, rows) where rows = [(raw, valid)]."""
    rows = []
    data, valid = [], []
    for i in range(n):
        v = Bool('%s_valid%d' % (name, i))
        if variant == 'Bool':
            r = Bool('%s_raw%d' % (name, i))
            data.append(r)
        elif variant == 'Float64':
            # the raw slot is 64 symbolic bits read as an IEEE double (every NaN pattern is the one NaN of the theory)
            from z3 import fpBVToFP, Float64
            r = BitVec('%s_raw%d' % (name, i), 64)
            data.append(Struct('OrderedFloat', [FP(fpBVToFP(r, Float64()))]))
        else:
            ty, w = PRIM[variant]
            r = BitVec('%s_raw%d' % (name, i), w)
            data.append(Struct(variant, [BV(r, True)]) if variant in WRAPPED else BV(r, True))
        valid.append(v)
        rows.append((r, v))
    pa = Struct('PrimitiveArray', [Bits(valid), Seq(data)])
    return Enum('ArrayImpl', variant, [Struct('Arc', [pa])]), rows


def unpack_array(vm, v):
    """(variant, [(raw z3, valid z3)]) of an ArrayImpl value."""
    v = vm.deref_value(v)
    arc = v.fields[0]
    pa = arc.fields[0] if isinstance(arc, Struct) and arc.name == 'Arc' else arc
    valid, data = pa.fields[0], pa.fields[1]
    rows = []
    for d, b in zip(data.items, valid.bits):
        d = vm.deref_value(d)
        if isinstance(d, Struct) and (d.name in WRAPPED or d.name == 'OrderedFloat'):
            d = vm.deref_value(d.fields[0])
        rows.append((d.v if isinstance(d, (BV, FP)) else d, b))
    return v.variant, rows
