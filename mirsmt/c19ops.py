"""C19, "these relations are the ones used by the comparison operators" (engine M).

The six SQL comparison kernels (`ArrayImpl::{eq, ne, lt, le, gt, ge}`) are interpreted from MIR on one-row arrays of each
type that has a kernel arm and a DataValue variant (BOOLEAN, SMALLINT, INT, BIGINT, DOUBLE, DATE) and compared with the
order the value layer uses (the one the Kani harnesses of this check establish to be a total order consistent with == and
the hash): for DOUBLE that is NaN = NaN, NaN greatest, -0 = +0; for the others the order of the underlying integers.
The arms and the reference are those of mirsmt/c14.py (same-type pairs); a counterexample is replayed on the real
executor."""
import json, multiprocessing as mp, time
from . import engine, c14

TYPES = ('Bool', 'Int16', 'Int32', 'Int64', 'Float64', 'Date')
CMPS = ('eq', 'ne', 'lt', 'le', 'gt', 'ge')


def run(rep, thorough):
    t0 = time.time()
    path = engine.program(True).path
    arms = [a for a in c14.arms(True) if a[0] in CMPS and len(a[2]) == 2 and a[2][0] == a[2][1] and a[2][0] in TYPES]
    tasks = [(a[0], a[1], a[2], 1, True, path) for a in arms]
    with mp.Pool(12) as pool:
        results = pool.map(c14.run_arm, tasks, chunksize=2)
    nq = 0
    for r, a in zip(results, arms):
        desc = 'operator %s on %s vs the value order' % (r['kernel'], a[2][0])
        rep.cov['programs'] += 1
        if 'inconclusive' in r:
            rep.fail_inconclusive('%s: %s' % (desc, r['inconclusive']))
            continue
        for o in r['obligations']:
            nq += 1
            if o['verdict'] == 'unsat':
                rep.obligation(True)
                rep.sample({'obligation': desc, 'verdict': 'holds for every pair of values (raw slots and validity bits symbolic)'}, cap=3)
                continue
            if o['verdict'] == 'unknown':
                rep.obligation(False)
                rep.fail_inconclusive('solver unknown: ' + desc)
                continue
            rp = c14.replay(r['kernel'], a[2], o['witness'], o['expected'], a[4]) if 'witness' in o else {'reproduced': None, 'how': {}}
            rep.cov['disagreements_checked'] = rep.cov.get('disagreements_checked', 0) + 1
            key = 'operator-order:%s:%s:%s' % (r['kernel'], a[2][0], o['kind'])
            what = '%s: %s -- operands %s; the value order gives %s, the operator %s' % (
                desc, o['kind'], json.dumps(o.get('witness')), json.dumps(o.get('expected')), json.dumps((rp.get('how') or {}).get('engine')))
            out = rep.counterexample(key, what[:500], {'obligation': o, 'replay': rp}, rp['reproduced'])
            rep.obligation(out == 'known')
    rep.solver(time.time() - t0, nq)
    rep.cov['functions_encoded'] = list(rep.cov.get('functions_encoded', [])) + ['ArrayImpl::{eq, ne, lt, le, gt, ge} same-type arms for %s (from MIR)' % ', '.join(TYPES)]
    rep.cov['trusted_base'] = list(rep.cov.get('trusted_base', [])) + ['OrderedFloat<f64> operators as read from the vendored ordered-float 4.5 source (natives)']
