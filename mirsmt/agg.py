"""The aggregate state machine, interpreted from MIR: Evaluator::{init_agg_state, eval_agg, agg_append}, AggState::result,
Ext::{add, or}, DataValue::{min, max, +}, ArrayImpl::{sum, count, min_, max_, first, last}.

Serves C02(a) (aggregates follow SQL on every input sequence and every chunking) and C11 (the array path used by simple
aggregation and the row path used by hash / sort aggregation agree)."""
import itertools, json, multiprocessing as mp, os, time
from z3 import And, Or, Not, If, BoolVal, BitVecVal, BitVec, Bool, is_true, is_false, simplify, SignExt, Extract, Solver, sat, unsat
from vlib.common import Inconclusive, rl, log
from . import engine
from .engine import make_vm, check, satisfiable, find_fn
from .vm import Ref, Cell, Enum, SymEnum, BV, Struct, Unsupported
from .mir import MirSyntax
from .arrays import sym_array
from .natives import eval_obj

EV = r'^evaluator::<impl at src/executor/evaluator\.rs:\d+:\d+: \d+:\d+>::'
AGGS = {'sum': 'Sum', 'count': 'Count', 'min': 'Min', 'max': 'Max', 'rowcount': 'RowCount', 'count-distinct': 'CountDistinct', 'first': 'First', 'last': 'Last'}
W = {'Int32': 32, 'Int64': 64}


def dv_alts(v):
    """[(cond, variant, payload z3 or None)] of a DataValue result."""
    if isinstance(v, Enum):
        return [(BoolVal(True), v.variant, v.fields[0].v if v.fields else None)]
    return [(c, a.variant, a.fields[0].v if a.fields else None) for c, a in v.alts]


def dv_equal(a, b):
    out = []
    for ca, va, pa in dv_alts(a):
        for cb, vb, pb in dv_alts(b):
            if va != vb:
                continue
            if pa is None:
                out.append(And(ca, cb))
            elif pa.size() == pb.size():
                out.append(And(ca, cb, pa == pb))
    return Or(out) if out else BoolVal(False)


def row_value(elem, raw, valid):
    """The DataValue a row iterator hands to agg_append: Null for an invalid slot."""
    return SymEnum('DataValue', [(valid, Enum('DataValue', elem, [BV(raw, True)])), (Not(valid), Enum('DataValue', 'Null'))])


class Agg:
    def __init__(self, vm, agg, elem):
        self.vm, self.agg, self.elem = vm, agg, elem
        self.f_eval = find_fn(vm.prog, EV + 'eval_agg$')
        self.f_app = find_fn(vm.prog, EV + 'agg_append$')
        self.f_init = find_fn(vm.prog, EV + 'init_agg_state$')
        self.f_res = find_fn(vm.prog, r'^evaluator::<impl at src/executor/evaluator\.rs:\d+:\d+: \d+:\d+>::into_result$')

    def init(self):
        outs = self.vm.run(self.f_init, [Ref(Cell(eval_obj(AGGS[self.agg], None)))])
        assert len(outs) == 1 and outs[0].kind == 'ret', outs
        return outs[0].value

    def via_eval(self, state, chunks, pc=()):
        """Fold eval_agg over chunks (each a list of (raw, valid)). Returns [(pc, 'ret'|'panic'|'err', DataValue)]."""
        import copy
        paths = [(list(pc), copy.deepcopy(state))]
        for rows in chunks:
            nxt = []
            for p, st in paths:
                arr = self._array(rows)
                ev = eval_obj(AGGS[self.agg], arr)
                outs = self.vm.run(self.f_eval, [Ref(Cell(ev)), copy.deepcopy(st), Ref(Cell(Struct('DataChunk', [len(rows)])))], p)
                for o in outs:
                    if o.kind == 'panic':
                        nxt.append((o.pc, 'panic', o.value))
                    elif o.value.variant == 'Err':
                        nxt.append((o.pc, 'err', o.value))
                    else:
                        nxt.append((o.pc, o.value.fields[0]))
            paths = []
            fin = []
            for x in nxt:
                if len(x) == 3:
                    fin.append(x)
                else:
                    paths.append(x)
            self._done = getattr(self, '_done', []) + fin
        res = list(getattr(self, '_done', []))
        self._done = []
        for p, st in paths:
            res += self._result(p, st)
        return res

    def via_append(self, state, rows, pc=()):
        import copy
        paths = [(list(pc), copy.deepcopy(state))]
        fin = []
        for raw, valid in rows:
            nxt = []
            for p, st in paths:
                ev = eval_obj(AGGS[self.agg], None)
                outs = self.vm.run(self.f_app, [Ref(Cell(ev)), copy.deepcopy(st), row_value(self.elem, raw, valid)], p)
                for o in outs:
                    if o.kind == 'panic':
                        fin.append((o.pc, 'panic', o.value))
                    else:
                        nxt.append((o.pc, o.value))
            paths = nxt
        res = fin
        for p, st in paths:
            res += self._result(p, st)
        return res

    def _result(self, pc, st):
        import copy
        outs = self.vm.run(self.f_res, [copy.deepcopy(st)], pc)
        return [(o.pc, 'ret' if o.kind == 'ret' else 'panic', o.value) for o in outs]

    def _array(self, rows):
        from .vm import Seq, Bits
        pa = Struct('PrimitiveArray', [Bits([v for _, v in rows]), Seq([BV(r, True) for r, _ in rows])])
        return Enum('ArrayImpl', self.elem, [Struct('Arc', [pa])])


def sql_agg(agg, elem, rows):
    """SQL definition over a row sequence: (is_null, value) with value a bit-vector of the result width."""
    w = W[elem]
    nn = [v for _, v in rows]
    cnt = lambda width: sum([If(v, BitVecVal(1, width), BitVecVal(0, width)) for v in nn], BitVecVal(0, width))
    if agg == 'rowcount':
        return BoolVal(False), BitVecVal(len(rows), 32)
    if agg == 'count':
        return BoolVal(False), cnt(32)
    if agg == 'count-distinct':
        acc = BitVecVal(0, 32)
        for j, (r, v) in enumerate(rows):
            dup = Or([And(rows[i][1], rows[i][0] == r) for i in range(j)]) if j else BoolVal(False)
            acc = acc + If(And(v, Not(dup)), BitVecVal(1, 32), BitVecVal(0, 32))
        return BoolVal(False), acc
    none = Not(Or(nn)) if nn else BoolVal(True)
    if agg == 'sum':
        return none, sum([If(v, r, BitVecVal(0, w)) for r, v in rows], BitVecVal(0, w))
    if agg in ('min', 'max'):
        best, have = BitVecVal(0, w), BoolVal(False)
        for r, v in rows:
            better = (r < best) if agg == 'min' else (r > best)
            best = If(And(v, Or(Not(have), better)), r, best)
            have = Or(have, v)
        return none, best
    raise KeyError(agg)


def splits(n, max_chunks=3):
    """Ways of cutting n rows into consecutive chunks, empty chunks included."""
    out = set()
    for k in range(1, max_chunks + 1):
        for cuts in itertools.product(range(n + 1), repeat=k - 1):
            cs = sorted(cuts)
            b = [0] + cs + [n]
            out.add(tuple(b[i + 1] - b[i] for i in range(k)))
    return sorted(out)


def sym_rows(elem, n, small=True):
    rows = []
    cons = []
    w = W[elem]
    for i in range(n):
        r, v = BitVec('x%d' % i, w), Bool('v%d' % i)
        rows.append((r, v))
        if small:
            # overflow is outside this claim (it is C14's): keep |raw| < 2^20 so that no partial sum overflows
            cons += [r >= BitVecVal(-(1 << 20), w), r <= BitVecVal(1 << 20, w)]
    return rows, cons


def model_rows(m, rows):
    out = []
    for r, v in rows:
        x = m.eval(r, model_completion=True).as_long()
        if x >= 1 << (r.size() - 1):
            x -= 1 << r.size()
        out.append({'raw': x, 'valid': bool(is_true(m.eval(v, model_completion=True)))})
    return out


def concrete_dv(m, res):
    for c, variant, payload in dv_alts(res):
        if is_true(m.eval(c, model_completion=True)):
            if payload is None:
                return None
            x = m.eval(payload, model_completion=True).as_long()
            return x - (1 << payload.size()) if x >= 1 << (payload.size() - 1) else x
    return 'unknown'


def sql_task(task):
    """C02(a): one (aggregate, element type, n rows, chunking, path) against the SQL definition."""
    agg, elem, n, split, path, mirpath = task
    os.environ['VERIF_MIR_OC'] = mirpath
    res = {'agg': agg, 'elem': elem, 'n': n, 'split': list(split), 'path': path, 'obligations': [], 'fns': []}
    t0 = time.time()
    try:
        vm = make_vm(True)
        a = Agg(vm, agg, elem)
        rows, cons = sym_rows(elem, n)
        st = a.init()
        if path == 'eval_agg':
            chunks, k = [], 0
            for c in split:
                chunks.append(rows[k:k + c])
                k += c
            outs = a.via_eval(st, chunks, cons)
        else:
            outs = a.via_append(st, rows, cons)
        res['fns'] = sorted(vm.trace_fns)
        res['natives'] = sorted(vm.used_natives)
    except (Unsupported, MirSyntax, KeyError, Inconclusive, AssertionError) as ex:
        res['inconclusive'] = '%s: %s' % (type(ex).__name__, str(ex)[:300])
        return res
    nul, val = sql_agg(agg, elem, rows)
    for pc, kind, v in outs:
        if kind != 'ret':
            s, m = satisfiable(list(pc))
            o = {'kind': 'fails', 'verdict': 'unsat' if s == 'unsat' else s}
            if m is not None:
                o['witness'] = model_rows(m, rows)
                o['expected'] = None if is_true(m.eval(nul, model_completion=True)) else 'value'
                o['model_result'] = str(kind)
            res['obligations'].append(o)
            continue
        claim = Or([And(c, (nul if p is None else And(Not(nul), p == (val if p.size() == val.size() else SignExt(p.size() - val.size(), val) if p.size() > val.size() else Extract(p.size() - 1, 0, val))))) for c, variant, p in dv_alts(v)])
        s, m = check(list(pc), claim)
        o = {'kind': 'sql-value', 'verdict': s}
        if m is not None:
            o['witness'] = model_rows(m, rows)
            x = m.eval(val, model_completion=True).as_long()
            o['expected'] = None if is_true(m.eval(nul, model_completion=True)) else (x - (1 << val.size()) if x >= 1 << (val.size() - 1) else x)
            o['model_result'] = concrete_dv(m, v)
        res['obligations'].append(o)
    res['solver_s'] = time.time() - t0
    return res


def agree_task(task):
    """C11: eval_agg over one chunk vs agg_append over its rows, from the initial state or from an arbitrary prior value."""
    agg, elem, n, prior, mirpath = task
    os.environ['VERIF_MIR_OC'] = mirpath
    res = {'agg': agg, 'elem': elem, 'n': n, 'prior': prior, 'obligations': [], 'fns': []}
    t0 = time.time()
    try:
        vm = make_vm(True)
        a = Agg(vm, agg, elem)
        rows, cons = sym_rows(elem, n)
        st = a.init()
        if prior == 'value' and agg != 'count-distinct':
            inner = st.fields[0]
            w = 32 if agg in ('count', 'rowcount') else W[elem]
            s0 = BitVec('s0', w)
            cons = cons + [s0 >= BitVecVal(0 if agg in ('count', 'rowcount') else -(1 << 20), w), s0 <= BitVecVal(1 << 20, w)]
            st = Enum('AggState', 'Value', [Enum('DataValue', 'Int32' if w == 32 else 'Int64', [BV(s0, True)])])
        A = a.via_eval(st, [rows], cons)
        B = a.via_append(st, rows, cons)
        res['fns'] = sorted(vm.trace_fns)
        res['natives'] = sorted(vm.used_natives)
    except (Unsupported, MirSyntax, KeyError, Inconclusive, AssertionError) as ex:
        res['inconclusive'] = '%s: %s' % (type(ex).__name__, str(ex)[:300])
        return res
    for pa, ka, va in A:
        for pb, kb, vb in B:
            pc = list(pa) + list(pb)
            if ka == 'ret' and kb == 'ret':
                # FIRST / LAST: decided separately for a NULL and a non-NULL deciding row (the first / last row of the
                # chunk), so that the recorded disagreement on NULL rows cannot hide one on ordinary rows
                roles = [(None, [])]
                if agg in ('first', 'last') and rows:
                    dec = rows[0][1] if agg == 'first' else rows[-1][1]
                    roles = [('paths-disagree', [Not(dec)]), ('paths-disagree-on-a-non-null-row', [dec])]
                for ri, (kind, extra) in enumerate(roles):
                    s, m = check(pc + extra, dv_equal(va, vb))
                    o = {'kind': kind or 'paths-disagree', 'verdict': s}
                    if m is not None:
                        o['witness'] = model_rows(m, rows)
                        o['array_path'], o['row_path'] = concrete_dv(m, va), concrete_dv(m, vb)
                        if prior == 'value':
                            o['prior'] = str(m.eval(BitVec('s0', 32 if agg in ('count', 'rowcount') else W[elem]), model_completion=True))
                    if ri + 1 < len(roles):
                        res['obligations'].append(o)
            else:
                if ka != 'ret' and kb != 'ret':
                    continue
                s, m = satisfiable(pc)
                o = {'kind': 'one-path-fails', 'verdict': 'unsat' if s == 'unsat' else s}
                if m is not None:
                    o['witness'] = model_rows(m, rows)
                    o['array_path'], o['row_path'] = (concrete_dv(m, va) if ka == 'ret' else ka), (concrete_dv(m, vb) if kb == 'ret' else kb)
            res['obligations'].append(o)
    res['solver_s'] = time.time() - t0
    return res


# ------------------------------------------------------------------------------------------------ replay through SQL
SQLAGG = {'sum': 'sum(%s)', 'count': 'count(%s)', 'min': 'min(%s)', 'max': 'max(%s)', 'rowcount': 'count(*)', 'count-distinct': 'count(distinct %s)',
          'first': 'first(%s)', 'last': 'last(%s)'}


def replay(agg, elem, witness, grouped=None, empty_chunk=False):
    """Run the aggregate over the witness rows through Database::run with the optimizer disabled:
    simple aggregation (array path) and GROUP BY a constant column (row path). raw-under-NULL slots are rebuilt as
    `raw + NULL`."""
    ty = 'INT' if elem == 'Int32' else 'BIGINT'
    stmts = ['create table r(g int, x_raw %s, x_nul %s)' % (ty, ty)]
    vals = ['(1, %d, %s)' % (w['raw'], '0' if w['valid'] else 'NULL') for w in witness]
    if vals:
        stmts.append('insert into r values ' + ', '.join(vals))
    arg = '(x_raw + x_nul)'
    call = SQLAGG[agg] % arg if '%s' in SQLAGG[agg] else SQLAGG[agg]
    where = ' where x_raw > 2000000000' if empty_chunk else ''
    q1 = 'select %s from r%s' % (call, where)
    q2 = 'select %s from r%s group by g' % (call, where)
    out, rc, err = rl('sql', {'engine': 'mem', 'stmts': stmts + ['pragma disable_optimizer', q1, q2]})
    qs = {o['sql']: o for o in out if o.get('sql') in (q1, q2)}
    how = {'stmts': stmts + [q1, q2]}

    def val(q):
        o = qs.get(q)
        if o is None:
            return 'MISSING'
        if o.get('panicked'):
            return 'PANIC'
        if not o.get('ok'):
            return 'ERROR: ' + o.get('err', '')[:80]
        if not o['rows']:
            return 'NO ROW'
        return o['rows'][0][0]
    how['simple_agg'], how['hash_agg'] = val(q1), val(q2)
    return how
