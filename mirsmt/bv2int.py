"""Exact translation of a bit-vector query into integer arithmetic, for multiply / divide-by-constant kernels on which
bit-blasting does not finish.

Every bit-vector term is represented by the mathematical integer of its *signed* reading.  add / sub / mul / neg get a
fresh integer r with the defining equation r = wrap_w(exact) (two's-complement wrap-around written with integer div),
so the translation is an equivalence, not an approximation.  Before the final query the translator tries to prove, for
each such operation in evaluation order, that `exact` already lies inside the w-bit range under the path condition (a
linear query, typically discharged by the overflow checks the compiled code performs itself); every proved range fact
is added as the lemma r = exact, which removes the modulus from the problem.  Lemmas are consequences of the asserted
formula, so the final verdict is a verdict about the original bit-vector query.  Unsupported operators raise NotInt and
the caller keeps the bit-vector verdict (`unknown`)."""
from z3 import (Int, IntVal, Bool, BoolVal, And, Or, Not, If, Implies, Xor, Solver, sat, unsat, is_bv, is_bool, is_bv_value, is_true, is_false,
                is_const, Z3_OP_BADD, Z3_OP_BSUB, Z3_OP_BMUL, Z3_OP_BNEG, Z3_OP_BSDIV, Z3_OP_BSREM, Z3_OP_BUDIV, Z3_OP_BUREM, Z3_OP_BSDIV_I, Z3_OP_BSREM_I,
                Z3_OP_BUDIV_I, Z3_OP_BUREM_I, Z3_OP_SLEQ, Z3_OP_SLT, Z3_OP_SGEQ, Z3_OP_SGT, Z3_OP_ULEQ, Z3_OP_ULT, Z3_OP_UGEQ, Z3_OP_UGT, Z3_OP_EQ,
                Z3_OP_DISTINCT, Z3_OP_ITE, Z3_OP_AND, Z3_OP_OR, Z3_OP_NOT, Z3_OP_IMPLIES, Z3_OP_XOR, Z3_OP_SIGN_EXT, Z3_OP_ZERO_EXT, Z3_OP_UNINTERPRETED,
                Z3_OP_BSMUL_NO_OVFL, Z3_OP_BSMUL_NO_UDFL, Z3_OP_BUMUL_NO_OVFL, Z3_OP_TRUE, Z3_OP_FALSE, Z3_OP_EXTRACT, Z3_OP_CONCAT, Z3_OP_BNOT, Z3_OP_IFF)


class NotInt(Exception):
    pass


class Translator:
    def __init__(self):
        self.cache = {}
        self.defs = []       # defining equations r = wrap(exact) and variable ranges
        self.ops = []        # (r, exact, lo, hi) in evaluation order
        self.n = 0

    @staticmethod
    def rng(w):
        return -(1 << (w - 1)), (1 << (w - 1)) - 1

    @staticmethod
    def wrap(x, w):
        m, h = 1 << w, 1 << (w - 1)
        return x - m * ((x + h) / m)        # integer `/` with a positive divisor is floor division

    @staticmethod
    def uns(x, w):
        return If(x < 0, x + (1 << w), x)

    def fresh(self, exact, w):
        self.n += 1
        r = Int('bv2int!%d' % self.n)
        lo, hi = self.rng(w)
        self.defs.append(r == self.wrap(exact, w))
        self.ops.append((r, exact, lo, hi))
        return r

    @staticmethod
    def tdiv(a, b):
        """Truncating division by a non-zero constant b (Rust / SMT-LIB bvsdiv on values in range)."""
        if b > 0:
            return If(a >= 0, a / b, -((-a) / b))
        return If(a >= 0, -(a / (-b)), (-a) / (-b))

    def t(self, e):
        k = e.get_id()
        if k in self.cache:
            return self.cache[k]
        r = self._t(e)
        self.cache[k] = r
        return r

    def _t(self, e):
        d = e.decl().kind()
        ch = e.children()
        if is_bv(e):
            w = e.size()
            if is_bv_value(e):
                return IntVal(e.as_signed_long())
            if d == Z3_OP_UNINTERPRETED and not ch:
                v = Int('bvvar!' + e.decl().name())
                lo, hi = self.rng(w)
                self.defs.append(And(v >= lo, v <= hi))
                return v
            if d in (Z3_OP_BADD, Z3_OP_BSUB, Z3_OP_BMUL):
                xs = [self.t(c) for c in ch]
                acc = xs[0]
                for x in xs[1:]:
                    ex = acc + x if d == Z3_OP_BADD else (acc - x if d == Z3_OP_BSUB else acc * x)
                    acc = self.fresh(ex, w)
                return acc
            if d == Z3_OP_BNEG:
                return self.fresh(-self.t(ch[0]), w)
            if d in (Z3_OP_BSDIV, Z3_OP_BSDIV_I, Z3_OP_BSREM, Z3_OP_BSREM_I):
                if not is_bv_value(ch[1]) or ch[1].as_signed_long() in (0, -1):
                    raise NotInt('signed division by a non-constant (or 0 / -1)')
                a, b = self.t(ch[0]), ch[1].as_signed_long()
                q = self.tdiv(a, b)
                return q if d in (Z3_OP_BSDIV, Z3_OP_BSDIV_I) else a - b * q
            if d in (Z3_OP_BUDIV, Z3_OP_BUDIV_I, Z3_OP_BUREM, Z3_OP_BUREM_I):
                if not is_bv_value(ch[1]) or ch[1].as_long() == 0:
                    raise NotInt('unsigned division by a non-constant')
                a, b = self.uns(self.t(ch[0]), w), ch[1].as_long()
                q = a / b
                res = q if d in (Z3_OP_BUDIV, Z3_OP_BUDIV_I) else a - b * q
                return self.wrap(res, w)
            if d == Z3_OP_ITE:
                return If(self.t(ch[0]), self.t(ch[1]), self.t(ch[2]))
            if d == Z3_OP_SIGN_EXT:
                return self.t(ch[0])
            if d == Z3_OP_ZERO_EXT:
                return self.uns(self.t(ch[0]), ch[0].size())
            raise NotInt('bit-vector operator %s' % e.decl().name())
        if is_bool(e):
            if d == Z3_OP_TRUE:
                return BoolVal(True)
            if d == Z3_OP_FALSE:
                return BoolVal(False)
            if d == Z3_OP_UNINTERPRETED and not ch:
                return e
            if d == Z3_OP_AND:
                return And([self.t(c) for c in ch])
            if d == Z3_OP_OR:
                return Or([self.t(c) for c in ch])
            if d == Z3_OP_NOT:
                return Not(self.t(ch[0]))
            if d == Z3_OP_IMPLIES:
                return Implies(self.t(ch[0]), self.t(ch[1]))
            if d == Z3_OP_XOR:
                return Xor(self.t(ch[0]), self.t(ch[1]))
            if d == Z3_OP_ITE:
                return If(self.t(ch[0]), self.t(ch[1]), self.t(ch[2]))
            if d in (Z3_OP_EQ, Z3_OP_IFF):
                return self.t(ch[0]) == self.t(ch[1])
            if d == Z3_OP_DISTINCT:
                xs = [self.t(c) for c in ch]
                return And([xs[i] != xs[j] for i in range(len(xs)) for j in range(i + 1, len(xs))])
            if d in (Z3_OP_SLEQ, Z3_OP_SLT, Z3_OP_SGEQ, Z3_OP_SGT):
                a, b = self.t(ch[0]), self.t(ch[1])
                return {Z3_OP_SLEQ: a <= b, Z3_OP_SLT: a < b, Z3_OP_SGEQ: a >= b, Z3_OP_SGT: a > b}[d]
            if d in (Z3_OP_ULEQ, Z3_OP_ULT, Z3_OP_UGEQ, Z3_OP_UGT):
                w = ch[0].size()
                a, b = self.uns(self.t(ch[0]), w), self.uns(self.t(ch[1]), w)
                return {Z3_OP_ULEQ: a <= b, Z3_OP_ULT: a < b, Z3_OP_UGEQ: a >= b, Z3_OP_UGT: a > b}[d]
            if d in (Z3_OP_BSMUL_NO_OVFL, Z3_OP_BSMUL_NO_UDFL):
                lo, hi = self.rng(ch[0].size())
                p = self.t(ch[0]) * self.t(ch[1])
                return p <= hi if d == Z3_OP_BSMUL_NO_OVFL else p >= lo
            if d == Z3_OP_BUMUL_NO_OVFL:
                w = ch[0].size()
                return self.uns(self.t(ch[0]), w) * self.uns(self.t(ch[1]), w) < (1 << w)
            raise NotInt('boolean operator %s' % e.decl().name())
        raise NotInt('sort %s' % e.sort())


def check_int(pc, claim, timeout=60000, lemma_timeout=5000):
    """Validity of `claim` under `pc` (both bit-vector formulas) decided over the integers.
    Returns ('unsat' | 'sat' | 'unknown', info) -- 'sat' carries no model of the original variables the caller could
    replay directly, so callers treat it as a hint and re-solve the bit-vector query with the found values pinned."""
    tr = Translator()
    ipc = [tr.t(c) for c in pc]
    iclaim = tr.t(claim)
    s = Solver()
    s.set('timeout', lemma_timeout)
    s.add(tr.defs)
    s.add(ipc)
    proved = 0
    for r, exact, lo, hi in tr.ops:
        s.push()
        s.add(Not(And(exact >= lo, exact <= hi)))
        res = s.check()
        s.pop()
        if res == unsat:
            s.add(r == exact)
            proved += 1
    s.set('timeout', timeout)
    s.add(Not(iclaim))
    res = s.check()
    info = {'ops': len(tr.ops), 'range_lemmas_proved': proved}
    if res == unsat:
        return 'unsat', info
    if res == sat:
        m = s.model()
        info['int_model'] = {str(d): m[d].as_long() for d in m.decls() if str(d).startswith('bvvar!') and m[d] is not None and hasattr(m[d], 'as_long')}
        return 'sat', info
    return 'unknown', info
