"""C11 All physical implementations of an operator agree -- the two aggregation paths (engine M)."""
import json, multiprocessing as mp
from vlib.common import Report
from . import engine, agg
from .natives import CRATE_CONTRACTS


def norm(x):
    return None if x is None else str(x)


def main(tier, only=None):
    rep = Report('C11', 'model_checking', './bin/check C11 --tier ' + tier)
    thorough = tier == 'thorough'
    prog = engine.program(True)
    tasks = []
    for a in agg.AGGS:
        if only and only not in a:
            continue
        for elem in (['Int32', 'Int64'] if thorough else ['Int32']):
            for n in ([1, 2, 3] if thorough else [1, 2]):
                for prior in ('init', 'value'):
                    if prior == 'value' and a == 'count-distinct':
                        continue
                    tasks.append((a, elem, n, prior, prog.path))
    with mp.Pool(16) as pool:
        results = pool.map(agg.agree_task, tasks, chunksize=1)
    fns, nats = set(), set()
    states = transitions = 0
    for r in results:
        fns |= set(r.get('fns', []))
        nats |= set(r.get('natives', []))
        rep.solver(r.get('solver_s', 0.0), len(r['obligations']))
        desc = '%s over %d %s rows from %s state' % (r['agg'], r['n'], r['elem'], 'the initial' if r['prior'] == 'init' else 'an arbitrary prior')
        if 'inconclusive' in r:
            rep.fail_inconclusive(desc + ': ' + r['inconclusive'])
            continue
        states += 1
        for o in r['obligations']:
            transitions += 1
            if o['verdict'] == 'unsat':
                rep.obligation(True)
                rep.sample({'aggregate': desc, 'obligation': 'eval_agg(chunk) == fold(agg_append, rows)', 'verdict': 'holds for all raw values / validity bits'}, cap=6)
                continue
            if o['verdict'] == 'unknown':
                rep.obligation(False)
                rep.fail_inconclusive('solver unknown: ' + desc)
                continue
            how = agg.replay(r['agg'], r['elem'], o['witness']) if r['prior'] == 'init' else {'note': 'prior state is not controllable through SQL: model-referenced'}
            if r['prior'] == 'init':
                reproduced = how['simple_agg'] != how['hash_agg']
                rep.cov['traces_validated_against_impl'] = rep.cov.get('traces_validated_against_impl', 0) + (1 if reproduced else 0)
            else:
                reproduced = None
            key = 'agg:%s:%s:%s' % (r['agg'], o['kind'], 'from-init' if r['prior'] == 'init' else 'from-prior-state')
            what = 'aggregate %s: array path (simple aggregation) gives %s, row path (hash / sort aggregation) gives %s on rows %s%s; engine: simple=%s hash=%s' % (
                r['agg'], o.get('array_path'), o.get('row_path'), json.dumps(o['witness']), (' prior state %s' % o['prior']) if o.get('prior') else '',
                how.get('simple_agg'), how.get('hash_agg'))
            out = rep.counterexample(key, what[:500], {'obligation': o, 'desc': desc, 'replay': how}, reproduced)
            rep.obligation(out == 'known')
            rep.sample({'aggregate': desc, 'verdict': 'sat', 'witness': o['witness'], 'array_path': o.get('array_path'), 'row_path': o.get('row_path'), 'class': out,
                        'engine': [how.get('simple_agg'), how.get('hash_agg')]}, cap=14)
    rep.cov['functions_encoded'] = sorted(f for f in fns)[:60]
    rep.cov['trusted_base'] = ['natives: ' + n for n in sorted(nats)] + ['crate contracts: ' + c for c in CRATE_CONTRACTS]
    rep.cov['states'], rep.cov['transitions'] = states, transitions
    rep.cov.setdefault('traces_validated_against_impl', 0)
    rep.cov['bounds'] = {'rows_per_chunk': '1-2 (quick) / 1-3 (thorough)', 'element types': 'Int32 (quick) / Int32, Int64 (thorough)', 'values': '|raw| <= 2^20 (overflow is decided under C14)',
                         'prior state': 'initial state and an arbitrary prior value'}
    rep.assumptions = ['only the aggregation paths are compared; join and sort executors are coroutines (outside)', 'Evaluator::{node,next,eval} and DataChunk::cardinality are modelled at the boundary (crate contracts)']
    # the join / aggregation / top-N executors are coroutines no solver back end reaches: their contracts are probed
    if not only:
        from relsmt import conform
        conform.run(rep, 'C11', thorough)
        conform.run_hetero(rep, thorough)
    return rep.finish()


def replay(path):
    print(json.dumps(json.load(open(path))['replay'], indent=1)[:6000])
    return 0
