"""C06, column layer: `ConcreteColumnIterator::skip_inner` keeps the iterator on the block that holds its row (engine M).

"Reading ... with any pattern of skipped ranges, and the reported row positions are exact": a column is a sequence of
blocks with *different* row counts (variable-width values), and a scan skips ranges that deletions made invisible.  The
iterator's position is (current_block_id, current_row_id, is_fake_iter, finished); `skip_inner(cnt)` and
`incre_block_id()` are synchronous and are interpreted from their MIR -- one inductive step from an arbitrary valid state:

  pre   K blocks with arbitrary row counts rc[i] >= 1, first_rowid[i] = rc[0] + ... + rc[i-1] (what BlockIndexBuilder
        writes); not finished; current block b; first[b] <= row <= first[b] + rc[b]; when the block is loaded
        (is_fake_iter = false) its iterator has first[b] + rc[b] - row items left (contract of BlockIterator);
  step  skip_inner(cnt) for an arbitrary cnt;
  post  row' = row + cnt; if finished then row' is at or beyond the end of the column; otherwise the current block b'
        satisfies first[b'] <= row' <= first[b'] + rc[b'] (the next batch is read from the block that holds row');
        no arithmetic panic.

Bounds: K <= 3 (quick) / 4 (thorough) blocks, rc[i] <= 2^20, cnt <= 2^22 (no u32 overflow inside the bound); everything
else symbolic.  `next_batch_inner` (async, block cache) is outside.  A counterexample layout is replayed through SQL: a
VARCHAR column is laid out with the witness' rows-per-block (string lengths chosen against a small block size), every
contiguous range of rows is deleted in turn and the surviving rows are read back; the violation is reported when some
range reads back wrong."""
import json, os, re, shutil, time
from z3 import BitVec, BitVecVal, And, Or, Not, If, ULE, ULT, UGE, ZeroExt, Extract, BoolVal, Bool, Solver, sat, is_true
from vlib.common import Inconclusive, REPO, rl, scratch_dir
from . import engine
from .engine import make_vm, check, find_fn
from .vm import Ref, Cell, BV, Struct, Seq, Opaque, Unsupported, mk_int
from .mir import MirSyntax
from .natives import crate_contract, dv
from . import c07      # registers the slice::partition_point native
from . import c13m     # Column::index / ColumnIndex::indexes contracts and the harness-supplied index (_INDEX)

SRC = 'src/storage/secondary/column/concrete_column_iterator.rs'
FN = r'^concrete_column_iterator::<impl at src/storage/secondary/column/concrete_column_iterator\.rs:\d+:\d+: \d+:\d+>::%s$'


@crate_contract(r'(^|::)ColumnIndex::index$', 'ColumnIndex::index(i): entry i of the block index supplied by the harness')
def _ci_index(vm, m, callee, args):
    from .vm import concrete_int
    i = concrete_int(dv(vm, args[1]))
    if i is None:
        raise Unsupported('symbolic block id')
    seq = c13m._INDEX['seq']
    if not 0 <= i < len(seq.items):
        from .vm import NativePanic
        raise NativePanic('index out of bounds: the len is %d but the index is %d' % (len(seq.items), i))
    return Ref(Cell(seq.items[i]))


@crate_contract(r'(^|::)ColumnIndex::len$', 'ColumnIndex::len(): number of blocks of the index supplied by the harness')
def _ci_len(vm, m, callee, args):
    return mk_int(len(c13m._INDEX['seq'].items), 'usize')


@crate_contract(r'BlockIteratorImpl as (block::)?BlockIterator<A>>::remaining_items$', 'BlockIterator::remaining_items(): rows of the loaded block not yet read (harness state)')
def _bi_remaining(vm, m, callee, args):
    it = dv(vm, args[0])
    return BV(it.data['remaining'], False)


@crate_contract(r'BlockIteratorImpl as (block::)?BlockIterator<A>>::skip$', 'BlockIterator::skip(n): n fewer rows remain (n <= remaining)')
def _bi_skip(vm, m, callee, args):
    from .vm import UNIT
    it = dv(vm, args[0])
    n = dv(vm, args[1]).v
    it.data['skipped'] = n
    it.data['remaining'] = it.data['remaining'] - n
    return UNIT


def struct_fields(path, name):
    src = open(os.path.join(REPO, path)).read()
    m = re.search(r'pub struct %s\b[^{]*\{(.*?)\n\}' % name, src, re.S)
    if not m:
        raise Inconclusive('struct %s not found in %s' % (name, path))
    return re.findall(r'^\s*(?:pub(?:\([^)]*\))? )?(\w+):', m.group(1), re.M)


def proto_fields(msg):
    src = open(os.path.join(REPO, 'proto/src/proto/rowset.proto')).read()
    m = re.search(r'message %s \{(.*?)\n\}' % msg, src, re.S)
    if not m:
        raise Inconclusive('message %s not found' % msg)
    body = re.sub(r'enum \w+ \{.*?\}', '', m.group(1), flags=re.S)
    return re.findall(r'^\s*(?:repeated |optional )?[\w.]+ (\w+) = \d+;', body, re.M)


def run_skip(rep, thorough):
    t0 = time.time()
    nq = 0
    try:
        vm = make_vm(True)
        f_skip = find_fn(vm.prog, FN % 'skip_inner')
        fields = struct_fields(SRC, 'ConcreteColumnIterator')
        bfields = proto_fields('BlockIndex')
        for need in ('column', 'current_block_id', 'block_iterator', 'current_row_id', 'finished', 'is_fake_iter'):
            if need not in fields:
                raise Inconclusive('ConcreteColumnIterator has no field %s' % need)
        for need in ('first_rowid', 'row_count'):
            if need not in bfields:
                raise Inconclusive('BlockIndex has no field %s' % need)
    except (Inconclusive, Unsupported, MirSyntax, KeyError) as ex:
        rep.fail_inconclusive('column skip: %s' % ex)
        return
    RC_MAX, CNT_MAX = 1 << 20, 1 << 22
    for K in ((2, 3, 4) if thorough else (2, 3)):
        rc = [BitVec('rc%d' % i, 32) for i in range(K)]
        first = [BitVecVal(0, 32)]
        for i in range(K - 1):
            first.append(first[i] + rc[i])
        total = first[K - 1] + rc[K - 1]
        base = [And(UGE(x, 1), ULE(x, RC_MAX)) for x in rc]
        blocks = []
        for i in range(K):
            vals = {'first_rowid': BV(first[i], False), 'row_count': BV(rc[i], False)}
            blocks.append(Struct('BlockIndex', [vals.get(f, Opaque(f)) for f in bfields]))
        c13m._INDEX['seq'] = Seq(blocks, 'slice')
        for b in range(K):
            for fake in (False, True):
                desc = 'skip_inner from block %d of %d (%s)' % (b, K, 'block not loaded yet' if fake else 'block loaded')
                row, cnt = BitVec('row', 32), BitVec('cnt', 64)
                end_b = first[b] + rc[b]
                pc0 = base + [UGE(row, first[b]), ULE(row, end_b), ULE(cnt, CNT_MAX)]
                it = Opaque('BlockIter', {'remaining': ZeroExt(32, end_b - row)})
                vals = {'column': Opaque('Column'), 'current_block_id': mk_int(b, 'u32'), 'block_iterator': it, 'current_row_id': BV(row, False),
                        'finished': BoolVal(False), 'factory': Opaque('factory'), 'is_fake_iter': BoolVal(fake), 'statistics': Opaque('statistics')}
                state = Struct('ConcreteColumnIterator', [vals.get(f, Opaque(f)) for f in fields])
                sref = Ref(Cell(state))
                try:
                    outs = vm.run(f_skip, [sref, BV(cnt, False)], pc=tuple(pc0))
                except (Unsupported, MirSyntax, KeyError, AttributeError, Inconclusive) as ex:
                    rep.fail_inconclusive('%s: %s: %s' % (desc, type(ex).__name__, str(ex)[:300]))
                    continue
                rep.cov['programs'] += 1
                for o in outs:
                    pc = list(o.pc)
                    nq += 1
                    if o.kind != 'ret':
                        st, mdl = engine.satisfiable(pc)
                        if st == 'unsat':
                            rep.obligation(True)
                            continue
                        if st != 'sat':
                            rep.obligation(False)
                            rep.fail_inconclusive('solver unknown: %s (panic path)' % desc)
                            continue
                        report(rep, desc, 'panics', small(pc, BoolVal(False), rc, row, cnt) or wit(mdl, rc, row, cnt), b, fake, None)
                        continue
                    st_ = vm.deref_value(o.args[0])
                    g = lambda name: vm.deref_value(st_.fields[fields.index(name)])
                    fin = g('finished')
                    fin = fin if not isinstance(fin, bool) else BoolVal(fin)
                    b2, r2 = g('current_block_id'), g('current_row_id')
                    from .vm import concrete_int
                    cb = concrete_int(b2)
                    if cb is None:
                        rep.fail_inconclusive('%s: symbolic block id after the step' % desc)
                        continue
                    inside = And(UGE(r2.v, first[cb]), ULE(r2.v, first[cb] + rc[cb])) if cb < K else BoolVal(False)
                    claim = And(r2.v == row + Extract(31, 0, cnt), If(fin, UGE(r2.v, total), inside))
                    stv, mdl = check(pc, claim, timeout=600000 if thorough else 120000)
                    if stv == 'unsat':
                        rep.obligation(True)
                        rep.sample({'obligation': desc, 'verdict': 'the iterator stays on the block holding its row, for every rows-per-block, position and count within the bounds'}, cap=4)
                        continue
                    if stv != 'sat':
                        rep.obligation(False)
                        rep.fail_inconclusive('solver unknown: %s' % desc)
                        continue
                    w = small(pc, claim, rc, row, cnt) or wit(mdl, rc, row, cnt)
                    ev = lambda e: mdl.eval(e, model_completion=True)
                    report(rep, desc, 'wrong-block', w, b, fake, cb)
    # fetch_hint_inner: the size of the next batch is what is left of the current block, or the next block's row count
    try:
        f_hint = find_fn(vm.prog, FN % 'fetch_hint_inner')
    except Inconclusive as ex:
        rep.fail_inconclusive('column fetch_hint: %s' % ex)
        f_hint = None
    for K in ((2, 3) if f_hint else ()):
        rc = [BitVec('rc%d' % i, 32) for i in range(K)]
        first = [BitVecVal(0, 32)]
        for i in range(K - 1):
            first.append(first[i] + rc[i])
        base = [And(UGE(x, 1), ULE(x, RC_MAX)) for x in rc]
        c13m._INDEX['seq'] = Seq([Struct('BlockIndex', [{'first_rowid': BV(first[i], False), 'row_count': BV(rc[i], False)}.get(f, Opaque(f)) for f in bfields]) for i in range(K)], 'slice')
        for b in range(K):
            desc = 'fetch_hint_inner on block %d of %d' % (b, K)
            row = BitVec('row', 32)
            end_b = first[b] + rc[b]
            vals = {'column': Opaque('Column'), 'current_block_id': mk_int(b, 'u32'), 'block_iterator': Opaque('BlockIter', {}), 'current_row_id': BV(row, False),
                    'finished': BoolVal(False), 'factory': Opaque('factory'), 'is_fake_iter': Bool('fake'), 'statistics': Opaque('statistics')}
            state = Struct('ConcreteColumnIterator', [vals.get(f, Opaque(f)) for f in fields])
            try:
                outs = vm.run(f_hint, [Ref(Cell(state))], pc=tuple(base + [UGE(row, first[b]), ULE(row, end_b)]))
            except (Unsupported, MirSyntax, KeyError, AttributeError, Inconclusive) as ex:
                rep.fail_inconclusive('%s: %s: %s' % (desc, type(ex).__name__, str(ex)[:300]))
                continue
            rep.cov['programs'] += 1
            for o in outs:
                nq += 1
                pc = list(o.pc)
                if o.kind != 'ret':
                    stv, mdl = engine.satisfiable(pc)
                    claim = BoolVal(False)
                else:
                    hint = vm.deref_value(o.value.items[0]).v
                    left = ZeroExt(32, end_b - row)
                    nxt = ZeroExt(32, rc[b + 1]) if b + 1 < K else BitVecVal(0, 64)
                    fin = o.value.items[1]
                    claim = And(hint == If(left == 0, nxt, left), Not(fin if not isinstance(fin, bool) else BoolVal(fin)))
                    stv, mdl = check(pc, claim)
                if stv == 'unsat':
                    rep.obligation(True)
                    continue
                if stv != 'sat':
                    rep.obligation(False)
                    rep.fail_inconclusive('solver unknown: %s' % desc)
                    continue
                w = wit(mdl, rc, row, BitVecVal(0, 64))
                report(rep, desc, 'wrong-batch-size' if o.kind == 'ret' else 'panics', w, b, False, None)
    # ColumnIndex::block_of_row: the seek of a column iterator lands on the block that holds the row
    try:
        f_bor = find_fn(vm.prog, r'^(secondary::)?index::<impl at src/storage/secondary/index\.rs:\d+:\d+: \d+:\d+>::block_of_row$')
    except Inconclusive as ex:
        rep.fail_inconclusive('block_of_row: %s' % ex)
        f_bor = None
    for K in ((1, 2, 3) if f_bor else ()):
        rc = [BitVec('rc%d' % i, 32) for i in range(K)]
        first = [BitVecVal(0, 32)]
        for i in range(K - 1):
            first.append(first[i] + rc[i])
        total = first[K - 1] + rc[K - 1]
        base = [And(UGE(x, 1), ULE(x, RC_MAX)) for x in rc]
        blocks = [Struct('BlockIndex', [{'first_rowid': BV(first[i], False), 'row_count': BV(rc[i], False)}.get(f, Opaque(f)) for f in bfields]) for i in range(K)]
        ci = Struct('ColumnIndex', [Struct('Arc', [Seq(blocks, 'slice')])])
        row = BitVec('row', 32)
        desc = 'ColumnIndex::block_of_row over %d blocks' % K
        try:
            outs = vm.run(f_bor, [Ref(Cell(ci)), BV(row, False)], pc=tuple(base + [ULT(row, total)]))
        except (Unsupported, MirSyntax, KeyError, AttributeError, Inconclusive, IndexError) as ex:
            rep.fail_inconclusive('%s: %s: %s' % (desc, type(ex).__name__, str(ex)[:300]))
            continue
        rep.cov['programs'] += 1
        for o in outs:
            nq += 1
            pc = list(o.pc)
            if o.kind != 'ret':
                stv, mdl = engine.satisfiable(pc)
            else:
                b = o.value.v
                claim = Or([And(b == i, UGE(row, first[i]), ULT(row, first[i] + rc[i])) for i in range(K)])
                stv, mdl = check(pc, claim)
            if stv == 'unsat':
                rep.obligation(True)
                continue
            if stv != 'sat':
                rep.obligation(False)
                rep.fail_inconclusive('solver unknown: %s' % desc)
                continue
            w = wit(mdl, rc, row, BitVecVal(0, 64))
            report(rep, desc, 'seek-lands-on-wrong-block' if o.kind == 'ret' else 'panics', w, 0, False, None)
    rep.solver(time.time() - t0, nq)
    rep.cov['functions_encoded'] = list(rep.cov.get('functions_encoded', [])) + ['ConcreteColumnIterator::{skip_inner, incre_block_id, fetch_hint_inner}, ColumnIndex::block_of_row (from MIR)']
    rep.cov.setdefault('bounds', {})
    rep.cov['bounds']['column skip'] = 'K <= %d blocks, rows per block <= 2^20, skip count <= 2^22, any position inside the current block, block loaded or not' % (4 if thorough else 3)


def wit(mdl, rc, row, cnt):
    ev = lambda e: mdl.eval(e, model_completion=True).as_long()
    return {'rows_per_block': [ev(x) for x in rc], 'row': ev(row), 'cnt': ev(cnt)}


def small(pc, claim, rc, row, cnt):
    for cap in (6, 12, 40):
        s = Solver()
        s.set('timeout', 20000)
        s.add(pc)
        s.add(Not(claim))
        s.add([ULE(x, cap) for x in rc] + [ULE(cnt, 4 * cap)])
        if s.check() == sat:
            return wit(s.model(), rc, row, cnt)
    return None


def report(rep, desc, kind, w, b, fake, b2):
    rp = replay(w) if max(w['rows_per_block']) <= 40 else {'reproduced': None, 'how': {'note': 'layout too large to build through SQL'}}
    rep.cov['disagreements_checked'] = rep.cov.get('disagreements_checked', 0) + 1
    rep.cov['traces_validated_against_impl'] = rep.cov.get('traces_validated_against_impl', 0) + (1 if rp['reproduced'] else 0)
    key = 'column-skip:%s:%s' % (kind, 'not-loaded' if fake else 'loaded')
    what = '%s: %s -- rows per block %s, row %d, skip %d%s; end to end: %s' % (
        desc, kind, w['rows_per_block'], w['row'], w['cnt'], (' -> block %d' % b2) if b2 is not None else '', json.dumps(rp['how'].get('first_failure') or rp['how'].get('note'))[:260])
    out = rep.counterexample(key, what[:600], {'witness': w, 'start_block': b, 'fake': fake, 'replay': rp}, rp['reproduced'])
    rep.obligation(out == 'known')


def layout_strings(rows_per_block, block_bytes):
    """Distinct, increasing strings such that the plain VARCHAR block builder (target = block_bytes - 16, cost of a row =
    its length + 4) closes a block after exactly rows_per_block[i] rows: every row of a block of n rows costs
    floor(target / n), so n rows fit and the first row of the next block (cost >= 8 > n - 1) does not."""
    target = block_bytes - 16
    out, k = [], 0
    for n in rows_per_block:
        ln = target // n - 4
        assert ln >= 4, (n, block_bytes)
        for _ in range(n):
            out.append(('%04d' % k) + 'x' * (ln - 4))
            k += 1
    return out


_FAMILY = {}


def replay(w):
    """Cached per run: the family of layouts does not depend on the witness."""
    key = tuple(max(1, min(n, 7)) for n in w['rows_per_block'])
    if 'hit' in _FAMILY:
        return _FAMILY['hit']
    if key in _FAMILY:
        return _FAMILY[key]
    r = _replay(w, family='family-done' not in _FAMILY)
    if r['reproduced']:
        _FAMILY['hit'] = r
    else:
        _FAMILY['family-done'] = True
        _FAMILY[key] = r
    return r


def _replay(w, family=True):
    """End-to-end search guided by the witness: VARCHAR columns are laid out with given rows per block (first the
    witness' own layout between guard blocks, then every sequence of four blocks of 1 / 3 / 7 rows); for each layout every
    run of two or more whole blocks is deleted in turn and the table is read back."""
    import itertools
    block_bytes = 128
    cap = lambda n: max(1, min(n, 7))
    layouts = [[2] + [cap(n) for n in w['rows_per_block']] + [7, 2]]
    if family:
        layouts += [[2] + list(seq) + [2] for seq in itertools.product((1, 3, 7), repeat=4)]
    how = {'layouts_tried': 0, 'tables_run': 0}
    for chunk in range(0, len(layouts), 20):
        stmts, cases = [], []
        for lay in layouts[chunk:chunk + 20]:
            vals = layout_strings(lay, block_bytes)
            starts = [sum(lay[:i]) for i in range(len(lay) + 1)]
            for i in range(1, len(lay) - 1):
                for j in range(i + 2, len(lay)):
                    t = len(cases)
                    lo, hi = starts[i], starts[j]
                    stmts += ['create table t%d(s varchar not null)' % t, 'insert into t%d values %s' % (t, ', '.join("('%s')" % v for v in vals)),
                              "delete from t%d where s >= '%04d' and s < '%04d'" % (t, lo, hi), 'select s from t%d' % t]
                    cases.append((lay, lo, hi, sorted(vals[:lo] + vals[hi:])))
        d = scratch_dir('c06c')
        out, rc, err = rl('sql', {'engine': 'disk', 'dir': d, 'block': block_bytes, 'rowset': 1 << 20, 'stmts': stmts}, timeout=900)
        shutil.rmtree(d, ignore_errors=True)
        res = {o['sql']: o for o in out if 'sql' in o}
        how['layouts_tried'] += len(layouts[chunk:chunk + 20])
        for t, (lay, lo, hi, exp) in enumerate(cases):
            o = res.get('select s from t%d' % t)
            if o is None:
                continue
            how['tables_run'] += 1
            got = sorted(r[0] for r in o['rows']) if o.get('ok') else None
            if got != exp:
                how['first_failure'] = {'block_bytes': block_bytes, 'rows_per_block': lay, 'deleted_rows': [lo, hi], 'expected_rows': len(exp),
                                        'returned_rows': (len(got) if got is not None else o.get('err')), 'panicked': o.get('panicked'),
                                        'stmts': ['create table t(s varchar not null)  -- on disk, target_block_size %d' % block_bytes,
                                                  'insert into t values <%d strings laid out as %s rows per block>' % (sum(lay), lay),
                                                  "delete from t where s >= '%04d' and s < '%04d'" % (lo, hi), 'select s from t']}
                return {'reproduced': True, 'how': how}
    how['note'] = 'no deleted block range read back wrong on %d layouts (%d tables)' % (how['layouts_tried'], how['tables_run'])
    return {'reproduced': False, 'how': how}
