"""Engine M driver: MIR dump + VM construction + outcome helpers shared by the C14 / C11 / C02 / C20 checks."""
import os, time
from z3 import Solver, And, Or, Not, BoolVal, sat, unsat, unknown, is_true, simplify
from vlib.common import Inconclusive, log
from .mir import Program, dump_mir, MirSyntax
from .vm import VM, Unsupported, Enum, SymEnum, Ref, Cell, BV
from .natives import NATIVES, NATIVE_DOC, CRATE_CONTRACTS, load_enums
from .arrays import sym_array, unpack_array

_prog = {}


def program(overflow_checks=True):
    if overflow_checks not in _prog:
        path = os.environ.get('VERIF_MIR_%s' % ('OC' if overflow_checks else 'NOOC'))
        if not path:
            path = dump_mir(overflow_checks)
        t0 = time.time()
        _prog[overflow_checks] = Program(path)
        log('MIR indexed: %d functions in %.1fs' % (len(_prog[overflow_checks].funcs), time.time() - t0))
    return _prog[overflow_checks]


def make_vm(overflow_checks=True):
    return VM(program(overflow_checks), NATIVES, load_enums(), overflow_checks=overflow_checks)


def find_fn(prog, pattern):
    c = prog.find(pattern)
    if len(c) != 1:
        raise Inconclusive('expected exactly one MIR function matching %s, found %d' % (pattern, len(c)))
    return c[0]


def check(pc, claim, timeout=60000, bv_first=None):
    """Is `claim` valid under path condition pc?  Returns ('unsat', None) when it holds, ('sat', model) with a
    counterexample, or ('unknown', None).  When bit-blasting gives no answer the query is decided over the integers by
    an exact translation (mirsmt/bv2int.py); an integer counterexample is turned back into a bit-vector model by pinning
    the variables and re-solving."""
    s = Solver()
    s.set('timeout', bv_first if bv_first is not None else timeout)
    s.add(pc)
    s.add(Not(claim))
    r = s.check()
    if r == unsat:
        return 'unsat', None
    if r == sat:
        return 'sat', s.model()
    from .bv2int import check_int, NotInt
    try:
        st, info = check_int(list(pc), claim, timeout=timeout)
    except NotInt:
        return 'unknown', None
    USED_INT[0] += 1
    if st == 'unsat':
        return 'unsat', None
    if st == 'sat':
        from z3 import BitVecVal, is_bv, z3util
        vs = {}
        for f in list(pc) + [claim]:
            for v in z3util.get_vars(f):
                vs[str(v)] = v
        s2 = Solver()
        s2.set('timeout', timeout)
        s2.add(pc)
        s2.add(Not(claim))
        for name, val in info.get('int_model', {}).items():
            v = vs.get(name[len('bvvar!'):])
            if v is not None and is_bv(v):
                s2.add(v == BitVecVal(val, v.size()))
        if s2.check() == sat:
            return 'sat', s2.model()
    return 'unknown', None


USED_INT = [0]


def satisfiable(conds, timeout=60000):
    s = Solver()
    s.set('timeout', timeout)
    s.add(conds)
    r = s.check()
    if r == sat:
        return 'sat', s.model()
    return ('unsat' if r == unsat else 'unknown'), None


def result_kind(o):
    """Classify a VM outcome of a function returning Result<ArrayImpl, ConvertError>: 'ok' | 'err' | 'panic'."""
    if o.kind == 'panic':
        return 'panic'
    v = o.value
    if isinstance(v, Enum) and v.ty == 'Result':
        return 'ok' if v.variant == 'Ok' else 'err'
    return 'ok'
