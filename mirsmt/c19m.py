"""C19, print / parse of intervals (engine M).

`Display for Interval` prints years(), months(), days(), hours(), minutes(), seconds() each followed by its unit (zero
fields omitted) and `FromStr` rebuilds Interval { months: y*12 + m, days: d, ms: ((h*60 + mi)*60 + s)*1000 } from the
numbers it reads.  The formatting machinery is outside the interpreter, so the obligation is stated on the pieces both
sides are made of: the six accessors are interpreted from their MIR on an arbitrary interval whose time part is a whole
number of seconds (the only ones SQL can build) and recomposed exactly as FromStr recomposes them; the result must be the
original interval, compared with the MIR of the derived PartialEq.  The multiply / divide-by-constant chains are decided
over the integers (mirsmt/bv2int.py).  A counterexample is replayed through SQL: the value is printed by the engine, the
printed text is inserted back as an interval literal and compared."""
import json, time
from z3 import BitVec, BitVecVal, And, Not, SRem, is_true
from vlib.common import Inconclusive, rl
from . import engine
from .engine import make_vm, check, find_fn
from .vm import Ref, Cell, BV, Struct, Unsupported, mk_int
from .mir import MirSyntax

IMPL = r'^interval::<impl at src/types/interval\.rs:\d+:\d+: \d+:\d+>::%s$'


def call(vm, fname, args, pc):
    """Run a function; returns [(pc, value)] for returning paths and [(pc, None)] for panicking ones."""
    outs = vm.run(fname, args, pc=tuple(pc))
    return [(list(o.pc), o.value if o.kind == 'ret' else None) for o in outs]


def run(rep, thorough):
    t0 = time.time()
    try:
        vm = make_vm(True)
        fn = {k: find_fn1(vm.prog, IMPL % k) for k in ('years', 'months', 'days', 'hours', 'minutes', 'seconds')}
        f_eq = [n for n in vm.prog.find(r'^interval::<impl at src/types/interval\.rs:\d+:\d+: \d+:\d+>::eq$')
                if 'Interval, _2: &interval::Interval' in vm.prog.get(n).header]
        if len(f_eq) != 1:
            raise Inconclusive('derived PartialEq for Interval not found')
    except (Inconclusive, Unsupported, MirSyntax, KeyError) as ex:
        rep.fail_inconclusive('interval accessors: %s' % ex)
        return
    mo, da, secs = BitVec('iv_months', 32), BitVec('iv_days', 32), BitVec('iv_secs', 32)
    # ms = secs * 1000 without overflow: the intervals SQL can build (literals, casts and sums of whole seconds)
    bound = 2_000_000
    pc0 = [secs > -bound, secs < bound]
    x = Struct('Interval', [BV(mo, True), BV(da, True), BV(secs * 1000, True)])
    paths = [(pc0, {})]
    try:
        for k in ('years', 'months', 'days', 'hours', 'minutes', 'seconds'):
            nxt = []
            for pc, got in paths:
                for pc2, v in call(vm, fn[k], [Ref(Cell(x))], pc):
                    if v is None:
                        nxt.append((pc2, None))
                    elif got is not None:
                        nxt.append((pc2, dict(got, **{k: v.v})))
            paths = nxt
    except (Unsupported, MirSyntax, KeyError, AttributeError) as ex:
        rep.fail_inconclusive('interval accessors: %s: %s' % (type(ex).__name__, str(ex)[:300]))
        return
    n = 0
    for pc, got in paths:
        n += 1
        rep.cov['programs'] += 1
        desc = 'Interval: FromStr-recomposition of the fields Display prints'
        if got is None:
            st, m = engine.satisfiable(pc)
            if st == 'unsat':
                continue
            rep.obligation(False)
            rep.fail_inconclusive('an Interval accessor panics: ' + desc)
            continue
        # FromStr: months = years * 12 + months; days; ms = ((hours * 60 + minutes) * 60 + seconds) * 1000
        y = Struct('Interval', [BV(got['years'] * 12 + got['months'], True), BV(got['days'], True),
                                BV(((got['hours'] * 60 + got['minutes']) * 60 + got['seconds']) * 1000, True)])
        try:
            eqs = call(vm, f_eq[0], [Ref(Cell(y)), Ref(Cell(x))], pc)
        except (Unsupported, MirSyntax, KeyError, AttributeError) as ex:
            rep.fail_inconclusive('Interval::eq: %s: %s' % (type(ex).__name__, str(ex)[:300]))
            continue
        for pc3, v in eqs:
            claim = v if not isinstance(v, BV) else (v.v != 0)
            st, m = check(pc3, claim, bv_first=3000)
            if st == 'unsat':
                rep.obligation(True)
                rep.sample({'obligation': desc, 'verdict': 'holds for every months, days and whole-second time part with |seconds| < %d' % bound}, cap=3)
                continue
            if st == 'unknown':
                rep.obligation(False)
                rep.fail_inconclusive('solver unknown: ' + desc)
                continue
            sg = lambda e: (lambda u: u - (1 << 32) if u >= 1 << 31 else u)(m.eval(e, model_completion=True).as_long())
            w = {'months': sg(mo), 'days': sg(da), 'seconds': sg(secs)}
            rp = replay(w)
            rep.cov['disagreements_checked'] += 1
            key = 'interval:print-parse:%s' % ('time-part-of-24h-or-more' if abs(w['seconds']) >= 86400 else 'other')
            what = 'an interval of %d months %d days %d seconds is not rebuilt from its printed form: printed %r, parsed back equal: %s' % (
                w['months'], w['days'], w['seconds'], rp['how'].get('printed'), rp['how'].get('equal_after_reparse'))
            out = rep.counterexample(key, what[:500], {'witness': w, 'replay': rp}, rp['reproduced'])
            rep.obligation(out == 'known')
    print_parse_probes(rep)
    n += csv_print_parse(rep)
    rep.solver(time.time() - t0, n)
    rep.cov['functions_encoded'] = list(rep.cov.get('functions_encoded', [])) + ['Interval::{years, months, days, hours, minutes, seconds} and the derived PartialEq (from MIR)']
    rep.cov['trusted_base'] = list(rep.cov.get('trusted_base', [])) + [
        'the reading of Display / FromStr for Interval as "print the six accessors with their units" / "months = y*12 + m, ms = ((h*60 + mi)*60 + s)*1000" (formatting and tokenising are not interpreted; the replay runs them)',
        'mirsmt/bv2int.py exact bit-vector -> integer translation (queries decided over the integers: %d)' % engine.USED_INT[0]]
    rep.cov.setdefault('bounds', {})
    rep.cov['bounds']['interval print/parse'] = 'all i32 months and days, time part a whole number of seconds with |seconds| < %d' % bound


def print_parse_probes(rep):
    """Display / FromStr of dates, timestamps and floats go through chrono / std::fmt, outside both solver engines.  The
    native replay binary prints and re-parses boundary values of each type on the real build (concrete probes of the
    `Display/FromStr is a bijection` assumption that C20 states and C19 demands; not a solver decision)."""
    import subprocess, re as _re
    from kani import run as krun
    try:
        krun.native_replay('c19_print_parse_probe', [[0]])
        exe = krun._replay_built['dev']
        out = subprocess.run([exe, 'c19_print_parse_probe', '0'], capture_output=True, text=True, timeout=120).stdout
    except Exception as ex:
        rep.fail_inconclusive('print/parse probes did not run: %s' % ex)
        return
    m = _re.search(r'PROBE-SUMMARY values=(\d+) failing=(\d+)', out)
    if not m:
        rep.fail_inconclusive('print/parse probes gave no summary')
        return
    rep.cov['print_parse_probes'] = {'values': int(m.group(1)), 'failing': int(m.group(2)), 'types': 'Date, Timestamp, TimestampTz, i16/i32/i64, bool, F64 (boundary values); every BLOB of one byte and of one byte followed by a hex digit / letter / backslash / quote / 0x00 / 0xFF',
                                     'note': 'concrete probes on the real build, not a solver decision'}
    seen = set()
    for ln in out.splitlines():
        mm = _re.match(r'PROBE (\w+) (\w+)\((-?\d+)\) (.*)$', ln)
        if not mm:
            if ln.startswith('PROBE ') and not ln.startswith('PROBE-SUMMARY'):
                key = 'print-parse:%s:other' % ln.split()[1]
                if key not in seen:
                    seen.add(key)
                    rep.obligation(rep.counterexample(key, 'print/parse probe: ' + ln[:300], {'line': ln}, True) == 'known')
            continue
        ty, _, val, rest = mm.groups()
        v = int(val)
        if ty in ('Timestamp', 'TimestampTz'):
            pm = _re.search(r'printed "[+-]?(\d+)-([^"]*)"', rest)
            if v % 1000000 != 0:
                cls = 'sub-second-part'
            elif pm and ' BC' in pm.group(2) and len(pm.group(1)) >= 5:
                cls = 'bc-year-of-five-digits'
            elif pm and len(pm.group(1)) >= 5:
                cls = 'year-beyond-9999'
            else:
                cls = 'whole-seconds'
        elif ty == 'Date':
            cls = 'year-beyond-9999' if v > 2932896 else ('year-before-1' if v < -719162 else 'common-era')
        else:
            cls = 'other'
        key = 'print-parse:%s:%s' % (ty, cls)
        if key in seen:
            continue
        seen.add(key)
        out_c = rep.counterexample(key, 'parse(display(x)) != x for %s(%s): %s' % (ty, val, rest[:200]), {'line': ln}, True)
        rep.obligation(out_c == 'known')


def find_fn1(prog, pattern):
    c = prog.find(pattern)
    if not c:
        raise Inconclusive('no MIR function matching ' + pattern)
    return c[0]


def replay(w):
    """Print the interval with the engine, insert the printed text back as an interval literal, compare."""
    lit = '%d months %d days %d seconds' % (w['months'], w['days'], w['seconds'])
    stmts = ['create table t(v interval)', "insert into t values (cast('%s' as interval))" % lit, 'select v from t']
    out, rc, err = rl('sql', {'engine': 'mem', 'stmts': stmts})
    how = {'stmts': list(stmts)}
    sel = [o for o in out if o.get('sql') == 'select v from t']
    if not sel or not sel[0].get('ok') or not sel[0]['rows']:
        return {'reproduced': None, 'how': how, 'note': 'replay did not run: ' + err[-200:]}
    printed = sel[0]['rows'][0][0]
    how['printed'] = printed
    stmts2 = stmts + ['create table u(v interval)', "insert into u values (cast('%s' as interval))" % printed, 'select count(*) from t, u where t.v = u.v']
    out, rc, err = rl('sql', {'engine': 'mem', 'stmts': stmts2})
    cnt = [o for o in out if o.get('sql', '').startswith('select count')]
    how['stmts'] = stmts2
    if not cnt or not cnt[0].get('ok'):
        how['equal_after_reparse'] = 'the printed form is not accepted: %s' % ((cnt[0].get('err') if cnt else err[-200:]))
        return {'reproduced': True, 'how': how}
    eq = cnt[0]['rows'] == [['1']]
    how['equal_after_reparse'] = eq
    return {'reproduced': not eq, 'how': how}


def csv_print_parse(rep):
    """"Printing a value and parsing it back (as CSV import does) returns an equal value": the export's cell -> field
    function composed with `ArrayBuilderImpl::push_str`, both from MIR (the obligation of mirsmt/c20.py), for BOOLEAN,
    SMALLINT, INT, BIGINT and VARCHAR cells, decided separately for NULL, the empty string and any other value."""
    from . import c20
    n = 0
    try:
        path = engine.program(True).path
    except Inconclusive as ex:
        rep.fail_inconclusive('csv print/parse: %s' % ex)
        return 0
    for variant in c20.TYPES:
        try:
            r = c20.run_type(variant, path)
        except (Unsupported, MirSyntax, KeyError, Inconclusive, AttributeError, IndexError) as ex:
            rep.fail_inconclusive('csv print/parse of %s: %s: %s' % (variant, type(ex).__name__, str(ex)[:300]))
            continue
        rep.cov['programs'] += 1
        for o in r['obligations']:
            n += 1
            desc = 'parse(print(v)) = v through the CSV field of a %s cell' % variant
            if o['verdict'] == 'unsat':
                rep.obligation(True)
                rep.sample({'obligation': desc, 'case': '%s / %s' % (o['kind'], o.get('role')), 'verdict': 'holds for every cell of that kind'}, cap=3)
                continue
            if o['verdict'] == 'unknown':
                rep.obligation(False)
                rep.fail_inconclusive('solver unknown: ' + desc)
                continue
            cell = o.get('witness', {}).get('cell')
            rp = c20.replay(variant, cell)
            rep.cov['disagreements_checked'] += 1
            key = 'print-parse:csv:%s:%s:%s' % (variant, o['kind'], o.get('role'))
            what = '%s: %s for the cell %r; end to end: import %s, printed table %s, parsed table %s' % (
                desc, o['kind'], cell, rp.get('how', {}).get('import'), rp.get('how', {}).get('exported_table'), rp.get('how', {}).get('imported_table'))
            out = rep.counterexample(key, what[:500], {'obligation': {k: v for k, v in o.items() if k != 'pc'}, 'replay': rp}, rp['reproduced'])
            rep.obligation(out == 'known')
    rep.cov['functions_encoded'] = list(rep.cov.get('functions_encoded', [])) + ['copy_to_file cell closure (ArrayImpl::get_to_string) and ArrayBuilderImpl::push_str (from MIR)']
    return n
