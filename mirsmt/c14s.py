"""C14, string functions: the index arithmetic of `substring` (engine M).

`ArrayImpl::substring` applies, row by row, a closure that turns (string, start, length) into
`a.chars().skip(skip).take(take).collect()`.  The closure's MIR is interpreted with the string abstracted to its length
in characters n (any 0 <= n < 2^31): `chars()` is the stream of positions [0, n), `skip(k)` / `take(k)` narrow the
window exactly as the std adaptors do, `collect::<String>()` returns the window.  Everything between -- the 1-based /
from-the-end start, the saturating end, the swap, the two clamps, the casts to usize -- is the real code.

Obligations, for EVERY n, every i32 start and length (no bound on the string length other than n < 2^31):
  * the closure never panics (overflow checks are compiled in in the dev profile; in release the same arithmetic would
    wrap, so the release MIR is checked for the same window);
  * for start >= 0 and length >= 0 (the region on which the SQL standard, PostgreSQL, MySQL and SQLite agree) the
    returned window is exactly the characters at 1-based positions p with start <= p < start + length and 1 <= p <= n;
    the position is a free symbolic variable, so the claim covers every character of every string.
Negative starts (risinglight counts from the end, as MySQL / SQLite do) and negative lengths have no agreed meaning;
only absence of panics is claimed there.

A counterexample is replayed through SQL on the real build: `select substring(s from <start> for <length>)` on a
string of n distinct characters, against the positions above computed in python."""
import json, time
from z3 import BitVec, BitVecVal, And, Or, Not, If, ULT, ULE, UGE, ZeroExt, SignExt, Extract, BoolVal, Solver, sat, unsat
from vlib.common import Inconclusive, rl
from . import engine
from .engine import make_vm, check
from .vm import Ref, Cell, BV, Opaque, Iter, Unsupported, NativePanic, mk_int
from .natives import NATIVES, NATIVE_DOC, dv
import re


def native(pattern, doc):
    """Registered in front of the generic iterator natives (these patterns are narrower)."""
    def deco(fn):
        NATIVES.insert(0, (re.compile(pattern), fn))
        NATIVE_DOC.append('%s: %s' % (pattern, doc))
        return fn
    return deco

from .mir import MirSyntax

CLOSURE = r'^array::ops::<impl at src/array/ops\.rs:\d+:\d+: \d+:\d+>::substring::\{closure#0\}$'


class SymText:
    """A string known only by its number of characters (BV64 n); a window of it is positions lo <= i < hi."""

    def __init__(self, n, lo=None, hi=None):
        self.n = n
        self.lo = BitVecVal(0, 64) if lo is None else lo
        self.hi = n if hi is None else hi

    def __repr__(self):
        return 'SymText'


def _text(vm, v):
    v = dv(vm, v) if isinstance(v, Ref) else v
    if not isinstance(v, SymText):
        raise Unsupported('not an abstract string: %r' % (v,))
    return v


@native(r'^core::str::<impl str>::chars$', 'str::chars on a string abstracted to its length: the stream of positions [0, n)')
def str_chars(vm, m, callee, args):
    t = _text(vm, args[0])
    return Iter('chars', n=t.n, lo=t.lo, hi=t.hi)


def _chars(it):
    if not isinstance(it, Iter) or it.kind != 'chars':
        raise Unsupported('not a chars stream: %r' % (it,))
    return it


def _u64(vm, v):
    v = dv(vm, v)
    if v.v.size() != 64:
        raise Unsupported('usize expected')
    return v.v


def _sat_add(a, b):
    """a + b on u64 saturating (a window bound never needs more)."""
    s = a + b
    return If(ULT(s, a), BitVecVal((1 << 64) - 1, 64), s)


@native(r'^<(std::iter::(Skip|Take)<)*(std::str::)?Chars<\'_>>* as Iterator>::count$', 'Iterator::count of a chars window')
def chars_count(vm, m, callee, args):
    it = _chars(args[0])
    hi = If(ULT(it.hi, it.n), it.hi, it.n)
    return BV(If(ULT(it.lo, hi), hi - it.lo, BitVecVal(0, 64)), False)


@native(r'^<(std::iter::(Skip|Take)<)*(std::str::)?Chars<\'_>>* as Iterator>::skip$', 'Iterator::skip(k) of a chars window: drops its first k positions')
def chars_skip(vm, m, callee, args):
    it = _chars(args[0])
    return Iter('chars', n=it.n, lo=_sat_add(it.lo, _u64(vm, args[1])), hi=it.hi)


@native(r'^<(std::iter::(Skip|Take)<)*(std::str::)?Chars<\'_>>* as Iterator>::take$', 'Iterator::take(k) of a chars window: keeps its first k positions')
def chars_take(vm, m, callee, args):
    it = _chars(args[0])
    end = _sat_add(it.lo, _u64(vm, args[1]))
    return Iter('chars', n=it.n, lo=it.lo, hi=If(ULT(end, it.hi), end, it.hi))


@native(r'^<(std::iter::(Skip|Take)<)*(std::str::)?Chars<\'_>>* as Iterator>::collect::<std::string::String>$', 'collect::<String>() of a chars window: the window itself')
def chars_collect(vm, m, callee, args):
    it = _chars(args[0])
    return SymText(it.n, it.lo, it.hi)


def included(t, i):
    """Is (0-based) position i of the original string part of window t?"""
    return And(UGE(i, t.lo), ULT(i, t.hi), ULT(i, t.n))


def run(rep, thorough):
    t0 = time.time()
    nq = 0
    for oc in ([True, False] if thorough else [True]):
        prof = 'dev' if oc else 'release'
        desc = 'substring(s from start for length) [%s]' % prof
        try:
            vm = make_vm(oc)
            fn = engine.find_fn(vm.prog, CLOSURE)
            n = BitVec('ss_n', 64)
            b, c = BitVec('ss_start', 32), BitVec('ss_len', 32)
            i = BitVec('ss_pos', 64)
            pc0 = [ULT(n, BitVecVal(1 << 31, 64))]
            outs = vm.run(fn, [Ref(Cell(Opaque('closure-env'))), SymText(n), Ref(Cell(BV(b, True))), Ref(Cell(BV(c, True)))], pc=tuple(pc0))
        except (Inconclusive, Unsupported, MirSyntax, KeyError, AttributeError) as ex:
            rep.fail_inconclusive('%s: %s: %s' % (desc, type(ex).__name__, str(ex)[:300]))
            continue
        rep.cov['programs'] += 1
        for o in outs:
            pc = list(o.pc)
            if o.kind != 'ret':
                # a panicking path must be infeasible
                nq += 1
                st, mdl = engine.satisfiable(pc)
                if st == 'unsat':
                    rep.obligation(True)
                    continue
                if st != 'sat':
                    rep.obligation(False)
                    rep.fail_inconclusive('solver unknown: %s panic path' % desc)
                    continue
                w = witness(mdl, n, b, c, None)
                w = small_witness(pc, BoolVal(False), n, b, c, None) or w
                report(rep, desc, prof, 'panics', w, oc)
                continue
            t = o.value
            if not isinstance(t, SymText):
                rep.fail_inconclusive('%s: unexpected result %r' % (desc, t))
                continue
            # reference on the agreed region: 1-based positions p = i + 1 with start <= p < start + length
            bb, cc, p = SignExt(32, b), SignExt(32, c), i + 1
            agreed = And(b >= 0, c >= 0)
            ref = And(ULT(i, n), p >= bb, p < bb + cc)
            claim = Or(Not(agreed), included(t, i) == ref)
            nq += 1
            st, mdl = check(pc, claim)
            if st == 'unsat':
                rep.obligation(True)
                rep.sample({'kernel': desc, 'obligation': 'window', 'verdict': 'holds for every string length < 2^31, every start >= 0, length >= 0 and every position'}, cap=4)
                continue
            if st != 'sat':
                rep.obligation(False)
                rep.fail_inconclusive('solver unknown: %s window' % desc)
                continue
            w = small_witness(pc, claim, n, b, c, i) or witness(mdl, n, b, c, i)
            report(rep, desc, prof, 'window', w, oc)
    rowwise_probe(rep)
    like_probe(rep, thorough)
    clear_null_probe(rep)
    cast_to_string_probe(rep)
    nq += month_days(rep)
    nq += date_add_logic(rep, thorough)
    date_interval_probe(rep)
    rep.solver(time.time() - t0, nq)
    rep.cov['functions_encoded'] = list(rep.cov.get('functions_encoded', [])) + ['array::ops::substring::{closure#0} (from MIR)']
    rep.cov.setdefault('bounds', {})
    rep.cov['bounds']['substring'] = 'every string length n < 2^31 (the string is abstracted to n), every i32 start and length; window claimed for start >= 0 and length >= 0, no-panic for all'


def sg(v, w):
    return v - (1 << w) if v >= 1 << (w - 1) else v


def witness(mdl, n, b, c, i):
    ev = lambda e: mdl.eval(e, model_completion=True).as_long()
    w = {'n': ev(n), 'start': sg(ev(b), 32), 'length': sg(ev(c), 32)}
    if i is not None:
        w['position'] = ev(i) + 1
    return w


def small_witness(pc, claim, n, b, c, i):
    """Prefer a counterexample with a short string (replayable through SQL)."""
    for cap in (8, 64, 4096):
        s = Solver()
        s.set('timeout', 20000)
        s.add(pc)
        s.add(Not(claim))
        s.add(ULT(n, BitVecVal(cap, 64)))
        if s.check() == sat:
            return witness(s.model(), n, b, c, i)
    return None


def expected(n, start, length):
    s = ''.join(chr(ord('a') + (k % 26)) for k in range(n))
    return s, ''.join(s[p - 1] for p in range(max(start, 1), min(start + length, n + 1)))


def replay(w, release=False):
    if w['n'] > 200000:
        return {'reproduced': None, 'how': {'note': 'the counterexample needs a string of %d characters' % w['n']}}
    s, exp = expected(w['n'], w['start'], w['length'])
    stmts = ['create table t(s varchar not null, b int not null, c int not null)',
             "insert into t values ('%s', %d, %d)" % (s, w['start'], w['length']),
             'select substring(s from b for c) from t']
    out, rc, err = rl('sql', {'engine': 'mem', 'stmts': stmts}, timeout=120, release=release)
    sel = [o for o in out if o.get('sql', '').startswith('select substring')]
    how = {'stmts': stmts if w['n'] < 200 else stmts[2:]}
    agreed = w['start'] >= 0 and w['length'] >= 0
    if not sel:
        how['engine'] = 'the statement did not finish (process died): ' + err[-200:]
        how['expected'] = exp[:200] if agreed else 'no failure'
        return {'reproduced': True, 'how': how}
    last = sel[0]
    if not last.get('ok') or last.get('panicked'):
        how['engine'] = {'err': last.get('err'), 'panicked': last.get('panicked')}
        how['expected'] = exp[:200] if agreed else 'no failure'
        return {'reproduced': True, 'how': how}
    got = last['rows'][0][0] if last['rows'] else None
    how['engine'] = (got or '')[:200]
    if agreed:
        how['expected'] = exp[:200]
        return {'reproduced': got != exp, 'how': how}
    return {'reproduced': False, 'how': how}


def report(rep, desc, prof, kind, w, oc):
    rp = replay(w, release=not oc)
    rep.cov['disagreements_checked'] = rep.cov.get('disagreements_checked', 0) + 1
    rep.cov['traces_validated_against_impl'] = rep.cov.get('traces_validated_against_impl', 0) + (1 if rp['reproduced'] else 0)
    key = 'kernel:substring:%s:%s' % (kind, prof)
    what = '%s: %s -- string of %d characters, start %d, length %d%s; engine %s, expected %s' % (
        desc, kind, w['n'], w['start'], w['length'], (', position %d' % w['position']) if 'position' in w else '',
        json.dumps(rp['how'].get('engine'))[:200], json.dumps(rp['how'].get('expected')))
    out = rep.counterexample(key, what[:500], {'witness': w, 'replay': rp}, rp['reproduced'])
    rep.obligation(out == 'known')


def rowwise_probe(rep):
    """Concrete probe (not a solver decision): `ternary_op` applies the closure row by row and yields NULL when any of
    the three arguments is NULL.  One batch holding every NULL / non-NULL combination is compared, row by row, with the
    positions computed in python."""
    rows, exp = [], []
    k = 0
    for s in ('abcdef', 'xy', '', None):
        for b in (0, 1, 3, 7, None):
            for c in (0, 2, 10, None):
                k += 1
                rows.append('(%d, %s, %s, %s)' % (k, 'NULL' if s is None else "'%s'" % s, 'NULL' if b is None else b, 'NULL' if c is None else c))
                if s is None or b is None or c is None:
                    exp.append([str(k), None])
                else:
                    exp.append([str(k), ''.join(s[p - 1] for p in range(max(b, 1), min(b + c, len(s) + 1)))])
    stmts = ['create table t(k int not null, s varchar, b int, c int)', 'insert into t values ' + ', '.join(rows),
             'select k, substring(s from b for c) from t order by k']
    out, rc, err = rl('sql', {'engine': 'mem', 'stmts': stmts}, timeout=120)
    sel = [o for o in out if o.get('sql', '').startswith('select k')]
    rep.cov['programs'] += 1
    if not sel or not sel[0].get('ok'):
        rep.obligation(False)
        rep.fail_inconclusive('substring row-wise probe did not run: %s' % ((sel[0].get('err') if sel else err[-200:]),))
        return
    got = [[r[0], (None if r[1] in (None, 'NULL') else r[1])] for r in sel[0]['rows']]
    bad = [(g, e) for g, e in zip(got, exp) if g != e] if len(got) == len(exp) else [('row count %d' % len(got), len(exp))]
    if not bad:
        rep.obligation(True)
        rep.sample({'kernel': 'substring over one batch of %d rows with NULLs in every argument position' % len(exp), 'obligation': 'row-wise probe (concrete)', 'verdict': 'every row equals the value for that row alone'}, cap=1)
        return
    what = 'substring over a batch: row %s differs from the value for that row alone (expected %s)' % (json.dumps(bad[0][0]), json.dumps(bad[0][1]))
    out = rep.counterexample('probe:substring:rowwise', what[:500], {'stmts': stmts, 'got': got, 'expected': exp}, True)
    rep.obligation(out == 'known')


def like_match(p, s):
    """SQL LIKE without an ESCAPE clause: % any sequence (newlines included), _ any one character, the rest literal."""
    n, m = len(p), len(s)
    ok = [[False] * (m + 1) for _ in range(n + 1)]
    ok[0][0] = True
    for i in range(1, n + 1):
        for j in range(m + 1):
            c = p[i - 1]
            if c == '%':
                ok[i][j] = ok[i - 1][j] or (j > 0 and ok[i][j - 1])
            elif j > 0 and (c == '_' or c == s[j - 1]):
                ok[i][j] = ok[i - 1][j - 1]
    return ok[n][m]


def like_probe(rep, thorough):
    """Concrete probe (not a solver decision; the regex crate is outside the interpreter): `ArrayImpl::like` compiles the
    pattern into a regular expression.  Every pattern of up to three characters over {a, %, _, .} and short patterns
    holding each regex metacharacter are run against a table of short strings (metacharacters and a newline included)
    and compared with the textbook matcher."""
    import itertools
    metas = '.()[]{}*+?|^$'
    pats = [''.join(t) for k in (1, 2, 3) for t in itertools.product('a%_.', repeat=k)]
    for mch in metas:
        pats += [mch, 'a' + mch, mch + 'a', '%' + mch, '_' + mch + '%']
    pats = list(dict.fromkeys(pats))
    strs = [''.join(t) for k in (0, 1, 2, 3) for t in itertools.product('ab.', repeat=k)]
    strs += [mch for mch in metas] + ['a' + mch for mch in metas] + [mch + 'a' for mch in metas] + ['a\nb', '\n', 'ab\n']
    strs = list(dict.fromkeys(strs))
    lit = lambda x: "'" + x + "'"
    stmts = ['create table t(k int not null, s varchar not null)', 'insert into t values ' + ', '.join('(%d, %s)' % (i, lit(x)) for i, x in enumerate(strs))]
    qs = ['select k from t where s like %s' % lit(p) for p in pats]
    out, rc, err = rl('sql', {'engine': 'mem', 'stmts': stmts + qs}, timeout=300)
    res = {o['sql']: o for o in out if 'sql' in o}
    rep.cov['programs'] += 1
    bad = {}
    ran = 0
    for p, q in zip(pats, qs):
        o = res.get(q)
        if o is None:
            continue
        ran += 1
        exp = sorted(i for i, x in enumerate(strs) if like_match(p, x))
        if o.get('panicked') or not o.get('ok'):
            bad.setdefault('pattern-fails', []).append((p, 'panic' if o.get('panicked') else o.get('err')))
            continue
        got = sorted(int(r[0]) for r in o['rows'])
        if got != exp:
            extra = [strs[i] for i in got if i not in exp]
            missing = [strs[i] for i in exp if i not in got]
            kind = 'newline' if any('\n' in x for x in extra + missing) and not any('\n' not in x for x in extra + missing) else 'metacharacter-not-literal'
            bad.setdefault(kind, []).append((p, {'wrongly_matched': extra[:4], 'wrongly_rejected': missing[:4]}))
    if ran < len(qs):
        rep.obligation(False)
        rep.fail_inconclusive('LIKE probe: %d of %d queries ran: %s' % (ran, len(qs), err[-200:]))
        return
    if not bad:
        rep.obligation(True)
        rep.sample({'kernel': 'LIKE: %d patterns x %d strings' % (len(pats), len(strs)), 'obligation': 'pattern probe (concrete)', 'verdict': 'every pattern selects exactly the strings the textbook matcher selects'}, cap=1)
        return
    for kind, items in bad.items():
        p, detail = items[0]
        what = 'LIKE %s: %d pattern(s), first %r: %s' % (kind, len(items), p, json.dumps(detail))
        out_c = rep.counterexample('probe:like:%s' % kind, what[:500], {'stmts': stmts[:1] + ['select k from t where s like %s' % lit(p)], 'patterns': [x[0] for x in items][:40], 'detail': detail}, True)
        rep.obligation(out_c == 'known')


def month_days(rep):
    """`get_month_days(year, month)` (the clamp `Date + Interval` applies after adding months / years), from MIR, against
    the Gregorian rule for every i32 year and each month."""
    from z3 import SRem
    desc = 'get_month_days(year, month)'
    try:
        vm = make_vm(True)
        c = [n for n in vm.prog.find(r'^(date::)?get_month_days$')]
        if not c:
            raise Inconclusive('date::get_month_days not found in the MIR')
        fn = c[0]
    except (Inconclusive, Unsupported, MirSyntax, KeyError) as ex:
        rep.fail_inconclusive('%s: %s' % (desc, ex))
        return 0
    y = BitVec('gm_year', 32)
    leap = And(SRem(y, 4) == 0, Or(SRem(y, 100) != 0, SRem(y, 400) == 0))
    nq = 0
    rep.cov['programs'] += 1
    for month, days in enumerate([31, 28, 31, 30, 31, 30, 31, 31, 30, 31, 30, 31], start=1):
        try:
            outs = vm.run(fn, [BV(y, True), mk_int(month, 'usize')])
        except (Unsupported, MirSyntax, KeyError, AttributeError) as ex:
            rep.fail_inconclusive('%s: %s: %s' % (desc, type(ex).__name__, str(ex)[:300]))
            return nq
        for o in outs:
            nq += 1
            pc = list(o.pc)
            if o.kind != 'ret':
                st, mdl = engine.satisfiable(pc)
                claim = None
            else:
                ref = If(leap, BitVecVal(29, 32), BitVecVal(28, 32)) if month == 2 else BitVecVal(days, 32)
                st, mdl = check(pc, o.value.v == ref)
            if st == 'unsat':
                rep.obligation(True)
                continue
            if st != 'sat':
                rep.obligation(False)
                rep.fail_inconclusive('solver unknown: %s' % desc)
                continue
            yy = sg(mdl.eval(y, model_completion=True).as_long(), 32)
            # replayable through SQL when the year has a date literal: move into 1..9999 keeping the year modulo 400
            ry = yy % 400 + 1600 if not 1 <= yy <= 9999 else yy
            rp = date_interval_replay(ry, month)
            what = '%s: for year %d, month %d the clamp is not the length of that month; end to end (year %d): %s' % (desc, yy, month, ry, json.dumps(rp['how'])[:300])
            out = rep.counterexample('kernel:date-add-interval:month-length', what[:500], {'year': yy, 'month': month, 'replay': rp}, rp['reproduced'])
            rep.obligation(out == 'known')
    rep.sample({'kernel': desc, 'obligation': 'month length', 'verdict': 'equals the Gregorian month length for every i32 year and every month'}, cap=1)
    rep.cov['functions_encoded'] = list(rep.cov.get('functions_encoded', [])) + ['date::get_month_days, is_leap_year (from MIR)']
    return nq


def add_months(d, n):
    """date + n months with the day clamped to the length of the target month (SQL / PostgreSQL semantics)."""
    import calendar, datetime
    t = d.year * 12 + (d.month - 1) + n
    yy, mm = divmod(t, 12)
    return datetime.date(yy, mm + 1, min(d.day, calendar.monthrange(yy, mm + 1)[1]))


def date_interval_replay(year, month):
    import datetime
    prev = add_months(datetime.date(year, month, 1), -1)
    src = datetime.date(prev.year, prev.month, 31 if prev.month in (1, 3, 5, 7, 8, 10, 12) else 30 if prev.month != 2 else 28)
    exp = add_months(src, 1)
    stmts = ["select date '%s' + interval '1' month" % src.isoformat()]
    out, rc, err = rl('sql', {'engine': 'mem', 'stmts': stmts})
    o = out[0] if out else {}
    got = o['rows'][0][0] if o.get('ok') and o.get('rows') else ('panic' if o.get('panicked') else o.get('err'))
    return {'reproduced': got != exp.isoformat(), 'how': {'stmts': stmts, 'engine': got, 'expected': exp.isoformat()}}


def date_interval_probe(rep):
    """Concrete probe (chrono is outside the interpreter): DATE +/- INTERVAL of whole months / years over month ends of
    leap, non-leap and century years, as constants and as a column, against python's calendar."""
    import datetime
    dates = []
    for y in (1900, 1996, 1999, 2000, 2001, 2004, 2100, 2400):
        for m, d in ((1, 29), (1, 30), (1, 31), (2, 28), (3, 31), (5, 31), (8, 31), (10, 31), (12, 31), (6, 15)):
            dates.append(datetime.date(y, m, d))
        if y % 4 == 0 and (y % 100 != 0 or y % 400 == 0):
            dates.append(datetime.date(y, 2, 29))
    ivs = [1, 2, 11, 12, 13, 24, 48, -1, -2, -12, -13]
    stmts = ['create table t(k int not null, d date not null)', 'insert into t values ' + ', '.join("(%d, date '%s')" % (i, d.isoformat()) for i, d in enumerate(dates))]
    qs = []
    for n in ivs:
        unit = "interval '%d' month" % abs(n) if abs(n) % 12 else "interval '%d' year" % (abs(n) // 12)
        qs.append((n, 'select k, d %s %s from t order by k' % ('+' if n > 0 else '-', unit)))
    out, rc, err = rl('sql', {'engine': 'mem', 'stmts': stmts + [q for _, q in qs]}, timeout=120)
    res = {o['sql']: o for o in out if 'sql' in o}
    rep.cov['programs'] += 1
    bad = []
    ran = 0
    for n, q in qs:
        o = res.get(q)
        if o is None:
            continue
        ran += 1
        if not o.get('ok') or o.get('panicked'):
            bad.append((q, 'panic' if o.get('panicked') else o.get('err'), None))
            continue
        for (k, got), d in zip(o['rows'], dates):
            exp = add_months(d, n).isoformat()
            if got != exp:
                bad.append((q, '%s gives %s' % (d.isoformat(), got), exp))
    if ran < len(qs):
        rep.obligation(False)
        rep.fail_inconclusive('DATE + INTERVAL probe: %d of %d queries ran: %s' % (ran, len(qs), err[-200:]))
        return
    if not bad:
        rep.obligation(True)
        rep.sample({'kernel': 'DATE +/- INTERVAL: %d dates x %d intervals' % (len(dates), len(ivs)), 'obligation': 'calendar probe (concrete)', 'verdict': 'every result is the calendar date with the day clamped to the month length'}, cap=1)
        return
    q, got, exp = bad[0]
    what = 'DATE +/- INTERVAL: %d wrong results, first: %s -> %s, calendar says %s' % (len(bad), q, got, exp)
    outc = rep.counterexample('probe:date-add-interval', what[:500], {'stmts': stmts[:2] + [q], 'wrong': bad[:20]}, True)
    rep.obligation(outc == 'known')


# ------------------------------------------------------------------------------------------------ DATE + INTERVAL, month logic
_DATES = {}


def _nd(tag):
    """A fresh chrono NaiveDate known by its civil fields (year, month, day), constrained to be a real date."""
    k = len(_DATES.setdefault('all', []))
    y, mo, d = BitVec('%s_y%d' % (tag, k), 32), BitVec('%s_m%d' % (tag, k), 32), BitVec('%s_d%d' % (tag, k), 32)
    _DATES['all'].append((y, mo, d))
    return Opaque('NaiveDate', {'y': y, 'm': mo, 'd': d})


def _civil_ok(y, mo, d, ybound=262000):
    from z3 import SRem
    leap = And(SRem(y, 4) == 0, Or(SRem(y, 100) != 0, SRem(y, 400) == 0))
    mlen = If(Or(mo == 4, mo == 6, mo == 9, mo == 11), BitVecVal(30, 32), If(mo == 2, If(leap, BitVecVal(29, 32), BitVecVal(28, 32)), BitVecVal(31, 32)))
    return And(y >= -ybound, y <= ybound, mo >= 1, mo <= 12, d >= 1, d <= mlen), mlen


@native(r'^(chrono::)?(naive::)?(date::)?NaiveDate::from_num_days_from_ce_opt$', 'chrono NaiveDate::from_num_days_from_ce_opt: Some(a real calendar date) -- which one is left open (chrono is outside the interpreter)')
def _nd_from_days(vm, m, callee, args):
    from .vm import Enum
    nd = _nd('src')
    ok, _ = _civil_ok(nd.data['y'], nd.data['m'], nd.data['d'], 100000)
    m.pc.append(ok)
    return Enum('Option', 'Some', [nd])


@native(r'^<(chrono::)?(naive::)?(date::)?NaiveDate as (chrono::)?Datelike>::(year|month|day|month0|day0)$', 'Datelike::{year, month, day, month0, day0}: the civil fields of the date (month0 / day0 count from zero)')
def _nd_field(vm, m, callee, args):
    nd = dv(vm, args[0])
    k = callee.rsplit('::', 1)[1]
    v = nd.data[{'year': 'y', 'month': 'm', 'day': 'd', 'month0': 'm', 'day0': 'd'}[k]]
    return BV(v - 1 if k.endswith('0') else v, k == 'year')


@native(r'^(chrono::)?(naive::)?(date::)?NaiveDate::from_ymd_opt$', 'chrono NaiveDate::from_ymd_opt(y, m, d): Some(that date) when it exists, None otherwise')
def _nd_from_ymd(vm, m, callee, args):
    from .vm import Enum, SymEnum
    y, mo, d = dv(vm, args[0]).v, dv(vm, args[1]).v, dv(vm, args[2]).v
    ok, _ = _civil_ok(y, mo, d)
    return SymEnum('Option', [(ok, Enum('Option', 'Some', [Opaque('NaiveDate', {'y': y, 'm': mo, 'd': d})])), (Not(ok), Enum('Option', 'None'))])


@native(r'^<(chrono::)?(naive::)?(date::)?NaiveDate as (chrono::)?Datelike>::num_days_from_ce$', 'Datelike::num_days_from_ce: some day number (left open)')
def _nd_days(vm, m, callee, args):
    nd = dv(vm, args[0])
    r = _civil_to_days()(nd.data['y'], nd.data['m'], nd.data['d'])
    m.pc.append(And(r >= -(1 << 28), r <= (1 << 28)))      # |year| <= 262143 in chrono: the day number is far from the i32 limits
    return BV(r, True)


def _civil_to_days():
    """Days from the common era of a civil date: uninterpreted (chrono's arithmetic is outside); two results are equal for
    every interpretation only when the dates are the same."""
    from z3 import Function, BitVecSort
    return Function('civil_to_days', BitVecSort(32), BitVecSort(32), BitVecSort(32), BitVecSort(32))


_IV = {}


@native(r'^interval::Interval::(years|months|days)$', 'Interval::{years, months, days}: the whole years, the remaining months (|months| < 12, same sign) and the days of the interval (the accessors themselves are decided from MIR under C19)')
def _iv_field(vm, m, callee, args):
    return BV(_IV[callee.rsplit('::', 1)[1]], True)


def date_add_task(task):
    """Worker: one source month, all enumerated interval-month remainders.  Returns plain dicts."""
    import os
    m0, rems, mirpath = task
    os.environ['VERIF_MIR_OC'] = mirpath
    res = []
    try:
        vm = make_vm(True)
        c = vm.prog.find(r'^date::<impl at src/types/date\.rs:\d+:\d+: \d+:\d+>::add$')
        if len(c) != 1:
            return [{'inconclusive': 'Date::add not found (%d candidates)' % len(c)}]
    except (Inconclusive, Unsupported, MirSyntax, KeyError) as ex:
        return [{'inconclusive': str(ex)}]
    from .vm import Struct
    for rem in rems:
        _DATES.clear()
        d0, yrs, idays = BitVec('da_date', 32), BitVec('da_years', 32), BitVec('da_days', 32)
        _IV.update(years=yrs, months=BitVecVal(rem, 32), days=idays)
        sign = [yrs >= 0] if rem > 0 else ([yrs <= 0] if rem < 0 else [])      # years and months of one interval agree in sign
        pc0 = [yrs >= -80000, yrs <= 80000, idays >= -(1 << 20), idays <= (1 << 20), d0 >= -(1 << 26), d0 <= (1 << 26)] + sign
        try:
            outs = vm.run(c[0], [Struct('Date', [BV(d0, True)]), Opaque('Interval')], pc=tuple(pc0))
        except (Unsupported, MirSyntax, KeyError, AttributeError, IndexError) as ex:
            return res + [{'inconclusive': '%s: %s' % (type(ex).__name__, str(ex)[:300])}]
        y, mo, d = _DATES['all'][0]
        carry, mi = divmod(m0 - 1 + rem, 12)
        Y, M = y + yrs + carry, BitVecVal(mi + 1, 32)
        _, mlen = _civil_ok(Y, M, BitVecVal(1, 32))
        D = If(d < mlen, d, mlen)
        for o in outs:
            pc = list(o.pc) + [mo == m0]
            if engine.satisfiable(pc, timeout=20000)[0] == 'unsat':
                continue
            if o.kind != 'ret':
                st, mdl = 'sat', engine.satisfiable(pc)[1]
                kind = 'panics'
            else:
                got = vm.deref_value(o.value.fields[0]).v
                app = [a_ for a_ in (got.children() + [got]) if a_.decl().name() == 'civil_to_days']
                if not app:
                    res.append({'inconclusive': 'unexpected result term'})
                    continue
                by, bm, bd = app[0].children()
                st, mdl = check(pc, And(by == Y, bm == M, bd == D))
                kind = 'wrong-date'
            r = {'m0': m0, 'rem': rem, 'kind': kind, 'verdict': st if (st != 'sat' or mdl is not None) else 'unknown'}
            if st == 'sat' and mdl is not None:
                ev = lambda e: sg(mdl.eval(e, model_completion=True).as_long(), 32)
                r['witness'] = {'date_after_days': [ev(y), m0, ev(d)], 'interval_months': ev(yrs) * 12 + rem, 'path': str(o.value)[:160] if o.kind != 'ret' else None}
            res.append(r)
    return res


def date_add_logic(rep, thorough=False):
    """`Date + Interval` from MIR with chrono abstracted to civil fields: the date reached after adding the interval's
    days is an arbitrary real date (y, m, d); the obligation is on what is handed to `NaiveDate::from_ymd_opt` (read off
    the result term): year and month are those of month number y*12 + (m-1) + interval months, the day is
    min(d, length of that month), and the call never fails or panics.  The source month and the interval's remaining
    months are enumerated (12 x 23; quick: 12 x 9), the year, the day, the interval's years and days are symbolic
    (|year| <= 100000, |interval years| <= 80000)."""
    import multiprocessing as mp
    desc = 'DATE + INTERVAL: month / year arithmetic and end-of-month clamp'
    rems = list(range(-11, 12)) if thorough else [-11, -3, -2, -1, 0, 1, 2, 3, 11]
    try:
        path = engine.program(True).path
    except Inconclusive as ex:
        rep.fail_inconclusive('%s: %s' % (desc, ex))
        return 0
    with mp.Pool(12) as pool:
        results = pool.map(date_add_task, [(m0, rems, path) for m0 in range(1, 13)], chunksize=1)
    rep.cov['programs'] += 1
    nq = 0
    for rs in results:
        for r in rs:
            if 'inconclusive' in r:
                rep.fail_inconclusive('%s: %s' % (desc, r['inconclusive']))
                continue
            nq += 1
            if r['verdict'] == 'unsat':
                rep.obligation(True)
                continue
            if r['verdict'] != 'sat':
                rep.obligation(False)
                rep.fail_inconclusive('solver unknown: %s (month %d, %+d months)' % (desc, r['m0'], r['rem']))
                continue
            w = r['witness']
            rp = date_add_replay(w)
            what = '%s: %s -- from %04d-%02d-%02d with %d months; end to end: %s' % (desc, r['kind'], w['date_after_days'][0], w['date_after_days'][1], w['date_after_days'][2], w['interval_months'], json.dumps(rp['how'])[:260])
            out = rep.counterexample('kernel:date-add-interval:%s' % r['kind'], what[:500], {'witness': w, 'replay': rp}, rp['reproduced'])
            rep.obligation(out == 'known')
    rep.sample({'kernel': desc, 'obligation': 'arguments of from_ymd_opt', 'verdict': 'year / month / clamped day are the calendar ones for every date with |year| <= 100000 and every interval of up to 80000 years and the enumerated months'}, cap=1)
    rep.cov['functions_encoded'] = list(rep.cov.get('functions_encoded', [])) + ['<Date as Add<Interval>>::add (from MIR; chrono abstracted to civil fields, Interval accessors as contracts)']
    return nq


def date_add_replay(w):
    """Through SQL when the witness is expressible: a date literal (years 1..9999) and a month interval."""
    import datetime
    y, mo, d = w['date_after_days']
    n = w['interval_months']
    # bring the year into the literal range keeping it modulo 400 (the calendar repeats every 400 years)
    y2 = y if 1 <= y <= 9000 else 2000 + (y % 400)
    try:
        src = datetime.date(y2, mo, d)
        n2 = n if abs(n) <= 12000 else (n % 4800 if n > 0 else -((-n) % 4800))
        exp = add_months(src, n2)
    except (ValueError, OverflowError):
        return {'reproduced': None, 'how': {'note': 'no literal for this date / interval'}}
    stmts = ["select date '%s' %s interval '%d' month" % (src.isoformat(), '+' if n2 >= 0 else '-', abs(n2))]
    out, rc, err = rl('sql', {'engine': 'mem', 'stmts': stmts})
    o = out[0] if out else {}
    got = o['rows'][0][0] if o.get('ok') and o.get('rows') and not o.get('panicked') else ('panic' if o.get('panicked') else o.get('err'))
    return {'reproduced': got != exp.isoformat(), 'how': {'stmts': stmts, 'engine': got, 'expected': exp.isoformat()}}


def clear_null_probe(rep):
    """`clear_null` zeroes the raw bit under NULL slots of every boolean result (comparisons, NOT, OR, LIKE, IN) -- filters
    and join conditions read those raw bits.  Its body is portable-SIMD code the interpreter does not execute: engine M uses
    the contract data[i] &= valid[i].  The contract is checked here against the real function for every batch length
    0..=200 (and around 256 / 1024) with four raw / validity patterns, by the native replay binary (concrete)."""
    from kani import run as krun
    rep.cov['programs'] += 1
    try:
        krun.ensure_replay_fn('c14_clear_null_probe')
        line = krun.native_replay('c14_clear_null_probe', [[0]])
    except Exception as ex:
        rep.obligation(False)
        rep.fail_inconclusive('clear_null contract probe did not run: %s' % str(ex)[:200])
        return
    if line.startswith('REPLAY ok'):
        rep.obligation(True)
        rep.sample({'kernel': 'clear_null', 'obligation': 'contract probe (concrete)', 'verdict': 'data[i] &= valid[i] for every batch length 0..=200, 255..257, 1023..1025'}, cap=1)
        return
    if not line.startswith('REPLAY panic'):
        rep.obligation(False)
        rep.fail_inconclusive('clear_null contract probe: %s' % line[:200])
        return
    what = 'the raw bit under a NULL slot of a boolean result is not cleared (filters and join conditions read it): %s' % line[:300]
    out = rep.counterexample('contract:clear_null', what[:500], {'native': line}, True)
    rep.obligation(out == 'known')


def cast_to_string_probe(rep):
    """Concrete probe (formatting is std::fmt / chrono, outside the interpreter): CAST(x AS VARCHAR) for every source type
    over a batch with NULLs between values -- a NULL stays NULL, a value becomes the text the engine prints for it, row by
    row whatever the neighbours are."""
    cols = {'smallint': ['-32768', '0', '7'], 'int': ['-2147483648', '0', '42'], 'bigint': ['9223372036854775807', '0', '-5'], 'boolean': ['true', 'false', 'true'],
            'double': ["cast('1.5' as double)", "cast('-0.25' as double)", "cast('1e300' as double)"], 'decimal(10,2)': ['1.25', '0.00', '-3.50'],
            'date': ["date '2000-02-29'", "date '1970-01-01'", "date '9999-12-31'"], 'varchar': ["'a'", "''", "'b c'"]}
    stmts, qs = [], []
    for i, (ty, vals) in enumerate(cols.items()):
        t = 'c%d' % i
        stmts.append('create table %s(k int not null, v %s)' % (t, ty))
        rows = ['(0, NULL)', '(1, %s)' % vals[0], '(2, NULL)', '(3, %s)' % vals[1], '(4, %s)' % vals[2], '(5, NULL)']
        stmts.append('insert into %s values %s' % (t, ', '.join(rows)))
        qs.append((ty, 'select k, v, cast(v as varchar), cast(v as varchar) is null from %s order by k' % t))
    out, rc, err = rl('sql', {'engine': 'mem', 'stmts': stmts + [q for _, q in qs]}, timeout=120)
    res = {o['sql']: o for o in out if 'sql' in o}
    rep.cov['programs'] += 1
    bad = []
    for ty, q in qs:
        o = res.get(q)
        if o is None or not o.get('ok') or o.get('panicked'):
            bad.append((ty, 'the cast fails: %s' % ((o or {}).get('err') or 'panic / not run: ' + err[-120:])))
            continue
        for k, v, sv, isnull in o['rows']:
            if v is None:
                if sv is not None or isnull != 'true':
                    bad.append((ty, 'row %s: NULL casts to %r (is null: %s)' % (k, sv, isnull)))
            elif sv != v or isnull != 'false':
                bad.append((ty, 'row %s: %r casts to %r (is null: %s)' % (k, v, sv, isnull)))
    if not bad:
        rep.obligation(True)
        rep.sample({'kernel': 'CAST(x AS VARCHAR) over %d source types' % len(cols), 'obligation': 'cast-to-string probe (concrete)', 'verdict': 'NULL stays NULL, values become their printed text'}, cap=1)
        return
    seen = set()
    for ty, what in bad:
        key = 'probe:cast-to-string:%s:%s' % (ty.split('(')[0], 'null' if 'NULL casts' in what else 'value')
        if key in seen:
            continue
        seen.add(key)
        outc = rep.counterexample(key, ('CAST(%s AS VARCHAR): ' % ty + what)[:400], {'stmts': stmts[:2 * len(cols)], 'detail': what}, True)
        rep.obligation(outc == 'known')
