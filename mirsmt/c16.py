"""C16, first clause: every column a query returns carries exactly the data type the binder derived for it (engine M).

For each Bool / Int16 / Int32 / Int64 (and Date comparison) arm of the expression kernels the MIR is executed
symbolically (as for C14): on every path that returns an array, the array's variant is a concrete fact that holds for
*every* operand value.  That runtime type is compared with the static type the real binder / type checker
(planner/rules/type_.rs) assigns to the same expression over columns of the operand types (asked through the driver).
The INSERT clauses of the property (NOT NULL, lossless conversion) have no code of their own to interpret: the
conversion is the `cast` kernel (decided under C14) and NOT NULL is probed end to end."""
import itertools, json, multiprocessing as mp, re, time
from vlib.common import Report, rl, Inconclusive
from . import engine, c14

STATIC = {'BOOLEAN': 'Bool', 'SMALLINT': 'Int16', 'INT': 'Int32', 'BIGINT': 'Int64', 'DATE': 'Date'}
SYM = {'and': 'AND', 'or': 'OR', 'eq': '=', 'ne': '<>', 'gt': '>', 'lt': '<', 'ge': '>=', 'le': '<=', 'add': '+', 'sub': '-', 'mul': '*', 'div': '/', 'rem': '%'}


def sql_expr(kernel, tys):
    cols = ['a', 'b', 'c']
    if kernel == 'not':
        return 'NOT a'
    if kernel == 'neg':
        return '-a'
    if kernel == 'select':
        return 'CASE WHEN a THEN b ELSE c END'
    if kernel == 'cast':
        return 'CAST(a AS %s)' % c14.SQLT[tys[1][3:]]
    return 'a %s b' % SYM[kernel]


def main(tier, only=None):
    rep = Report('C16', 'model_checking', './bin/check C16 --tier ' + tier)
    thorough = tier == 'thorough'
    prog = engine.program(True)
    arms = [a for a in c14.arms(thorough) if not only or only in a[0]]
    tasks = [(a[0], a[1], a[2], 1, True, prog.path) for a in arms]
    with mp.Pool(16) as pool:
        results = pool.map(c14.run_arm, tasks, chunksize=2)
    # static types from the real binder, one statement per arm
    items = []
    for a in arms:
        ops = [t for t in a[2] if not t.startswith('to:')]
        ddl = 'create table r%d(%s)' % (len(items), ', '.join('%s %s' % ('abc'[i], c14.SQLT[t]) for i, t in enumerate(ops)))
        items.append((ddl, 'SELECT %s FROM r%d' % (sql_expr(a[0], a[2]), len(items))))
    out, rc, err = rl('plans', {'setup': [d for d, _ in items], 'queries': [q for _, q in items], 'configs': [{'name': 'mem'}]}, timeout=600)
    plans = {o['sql']: o for o in out if 'sql' in o}
    fns = set()
    states = transitions = 0
    for a, r, (ddl, q) in zip(arms, results, items):
        desc = '%s[%s]: `%s`' % (a[0], 'x'.join(a[2]), q)
        fns |= set(r.get('fns', []))
        rep.solver(r.get('solver_s', 0.0), 1)
        if 'inconclusive' in r:
            rep.fail_inconclusive('%s: %s' % (desc, r['inconclusive']))
            continue
        p = plans.get(q)
        if p is None or 'bound' not in p:
            rep.skip(desc, 'the binder rejects the expression: %s' % ((p or {}).get('bind_err') or (p or {}).get('parse_err') or 'no plan'))
            continue
        ty = (p['opt'].get('mem') or {}).get('type', '')
        import re
        m = re.match(r'STRUCT\((\w+)\)$', ty)
        static = STATIC.get(m.group(1)) if m else None
        if static is None:
            rep.skip(desc, 'static type %s outside the fragment' % ty)
            continue
        variants = r.get('out_variants', [])
        states += 1
        rep.cov['programs'] += 1
        if not variants:
            rep.skip(desc, 'the kernel never returns a value for these operand types (error on every path)')
            continue
        transitions += 1
        if variants == [static]:
            rep.obligation(True)
            rep.sample({'expression': desc, 'static_type': static, 'runtime_type_on_every_path': variants[0]}, cap=10)
            continue
        rp = replay(ddl, q, a)
        key = 'type:%s:%s' % (a[0], 'x'.join(a[2]))
        what = '%s: the binder says %s, the kernel returns %s for every operand value; on the real engine: static %s, runtime %s' % (desc, static, '/'.join(variants), rp['how'].get('static'), rp['how'].get('runtime'))
        out_c = rep.counterexample(key, what[:500], {'arm': desc, 'static': static, 'runtime_variants': variants, 'replay': rp}, rp['reproduced'])
        rep.obligation(out_c == 'known')
    if not only:
        insert_probes(rep)
        null_storage_probes(rep)
        values_probes(rep)
        insert_mapping_probes(rep)
    rep.cov['functions_encoded'] = sorted(f for f in fns if 'array' in f or 'ops' in f)[:60] + ['static types: Binder + planner/rules/type_.rs through the driver (`plans`)']
    rep.cov['states'], rep.cov['transitions'] = max(states, 1), max(transitions, 1)
    rep.cov.setdefault('traces_validated_against_impl', rep.cov['disagreements_checked'])
    rep.cov['bounds'] = {'expressions': 'one operator over columns of type Bool / Int16 / Int32 / Int64 (Date for comparisons); every arm of and, or, not, comparisons, + - * / %, unary minus, CASE, CAST',
                         'values': 'all (the result variant is the same on every returning path of the symbolic execution)'}
    rep.cov['trusted_base'] = ['engine M (natives listed under C14)', 'the driver reports the plan type computed by the real type checker']
    rep.assumptions = ['compound expressions are typed bottom-up by the same per-operator rules; Float64 / Decimal / String / Interval arms are outside',
                       'INSERT: conversion = the cast kernel (C14); NOT NULL enforcement has no code of its own to interpret and is probed end to end (known findings)']
    return rep.finish()


def replay(ddl, q, arm):
    ops = [t for t in arm[2] if not t.startswith('to:')]
    vals = ', '.join({'Bool': 'true', 'Date': "date '2000-01-01'"}.get(t, '1') for t in ops)
    stmts = [ddl, 'insert into %s values (%s)' % (ddl.split('(')[0].split()[-1], vals), q]
    out, rc, err = rl('sql', {'engine': 'mem', 'stmts': stmts})
    pl, _, _ = rl('plans', {'setup': [ddl], 'queries': [q], 'configs': [{'name': 'mem'}]})
    st = [o for o in pl if o.get('sql') == q]
    o = [x for x in out if x.get('sql') == q]
    how = {'stmts': stmts, 'static': (st[0]['opt'].get('mem') or {}).get('type') if st and 'opt' in st[0] else None, 'runtime': o[0].get('types') if o and o[0].get('ok') else None}
    if how['static'] is None or how['runtime'] is None:
        return {'reproduced': None, 'how': how}
    import re
    m = re.match(r'STRUCT\((\w+)\)$', how['static'])
    return {'reproduced': bool(m) and STATIC.get(m.group(1)) != how['runtime'][0], 'how': how}


def values_probes(rep):
    """VALUES lists whose rows have different literal types (the wide one first, in the middle, last): the derived column type
    must hold every row, the runtime type must be the derived one, and every value must come back unchanged -- as a bare
    query and as the source of an INSERT into a column of the wide type.  Concrete probes of the type checker's union rule."""
    import itertools
    from decimal import Decimal
    sets = [('BIGINT', ['1', '3000000000', '-3']), ('DECIMAL(20,2)', ['1', '2.5', '3']), ('INT', ['1', 'NULL', '3']), ('VARCHAR', ["'a'", 'NULL', "'c'"])]
    n = ok = 0
    seen = set()
    for wide, lits in sets:
        for perm in itertools.permutations(range(3)):
            vals = [lits[i] for i in perm]
            q = 'select * from (values %s)' % ', '.join('(%s)' % v for v in vals)
            stmts = ['create table w(x %s)' % wide, q, 'insert into w values %s' % ', '.join('(%s)' % v for v in vals), 'select x from w']
            out, rc, err = rl('sql', {'engine': 'mem', 'stmts': stmts})
            res = {o['sql']: o for o in out if 'sql' in o}
            pl, _, _ = rl('plans', {'setup': [], 'queries': [q], 'configs': [{'name': 'mem'}]})
            st = [o for o in pl if o.get('sql') == q]
            static = (st[0].get('opt', {}).get('mem') or {}).get('type') if st else None

            def norm(x):
                if x is None or x == 'NULL':
                    return None
                x = x.strip("'")
                try:
                    return str(Decimal(x).normalize())
                except Exception:
                    return x
            want = [norm(v) for v in vals]
            for label, sql in (('query', q), ('insert', 'select x from w')):
                n += 1
                o = res.get(sql)
                problem = None
                if o is None or not o.get('ok') or o.get('panicked'):
                    ins = res.get(stmts[2])
                    problem = 'fails: %s' % (((o or {}).get('err')) or ((ins or {}).get('err')) or 'panic')
                else:
                    got = [norm(r[0]) for r in o['rows']]
                    if got != want:
                        problem = 'returns %s' % got
                    elif label == 'query' and static and o.get('types'):
                        m = re.match(r'STRUCT\((\w+)', static)
                        rt = o['types'][0]
                        names = {'INT': 'Int32', 'BIGINT': 'Int64', 'BOOLEAN': 'Bool', 'SMALLINT': 'Int16', 'DOUBLE': 'Float64', 'DECIMAL': 'Decimal', 'VARCHAR': 'String', 'STRING': 'String'}
                        if m and names.get(m.group(1)) and names[m.group(1)] != rt and rt != 'Null':
                            problem = 'runtime type %s, static type %s' % (rt, static)
                if problem is None:
                    ok += 1
                    continue
                pos = ['first', 'middle', 'last'][vals.index(lits[1])]
                key = 'values:%s:%s:odd-row-%s' % (label, wide.split('(')[0], pos)
                if key in seen:
                    continue
                seen.add(key)
                what = '`%s`%s: %s; the rows are %s' % (q, '' if label == 'query' else ' inserted into a %s column' % wide, problem, want)
                outc = rep.counterexample(key, what[:500], {'stmts': stmts, 'static': static, 'result': o}, True)
                rep.obligation(outc == 'known')
    rep.cov['values_probes'] = {'checked': n, 'agreeing': ok, 'note': 'VALUES lists mixing literal types in every row order; concrete probes, not a solver decision'}


def insert_mapping_probes(rep):
    """INSERT with an explicit column list: every permutation and every proper subset of the table's columns, VALUES and SELECT
    sources, on both engines; each stored value must be the one inserted *for that column*, converted to its declared type, and
    omitted columns must be NULL.  SQLite is the reference (same statements).  Concrete probes."""
    import itertools, shutil, sqlite3
    from vlib.common import scratch_dir
    cols = [('a', 'int'), ('b', 'bigint'), ('c', 'smallint'), ('d', 'varchar')]
    vals = {'a': '7', 'b': '3000000000', 'c': '-12', 'd': "'x'"}
    lists = [list(p) for r in (4, 3, 2, 1) for p in itertools.permutations([c for c, _ in cols], r)]
    lists = [l for i, l in enumerate(lists) if len(l) == 4 or i % 3 == 0]
    stmts = ['create table t(%s)' % ', '.join('%s %s' % c for c in cols), 'create table src(%s)' % ', '.join('%s %s' % c for c in cols),
             'insert into src values (%s)' % ', '.join(vals[c] for c, _ in cols)]
    tagged = []
    for k, l in enumerate(lists):
        stmts.append('insert into t(%s) values (%s)' % (', '.join(l), ', '.join(vals[c] for c in l)))
        tagged.append(l)
        if k % 4 == 0:
            stmts.append('insert into t(%s) select %s from src' % (', '.join(l), ', '.join(l)))
            tagged.append(l)
    q = 'select a, b, c, d from t'
    stmts.append(q)
    want = [[(vals[c].strip("'") if c in l else None) for c, _ in cols] for l in tagged]
    n = ok = 0
    for eng in ('mem', 'disk'):
        d = scratch_dir('c16map') if eng == 'disk' else None
        inp = {'engine': eng, 'stmts': stmts}
        if d:
            inp.update(dir=d, block=4096, rowset=1 << 20)
        out, rc, err = rl('sql', inp, timeout=300)
        if d:
            shutil.rmtree(d, ignore_errors=True)
        res = [o for o in out if 'sql' in o]
        if len(res) != len(stmts) or not res[-1].get('ok'):
            rep.fail_inconclusive('insert mapping probe did not complete on %s: %s' % (eng, err[-200:]))
            continue
        failed = [o['sql'] for o in res[3:-1] if not o.get('ok') or o.get('panicked')]
        got = res[-1]['rows']
        n += 1
        rep.cov['programs'] += 1
        if not failed and sorted(map(json.dumps, got)) == sorted(map(json.dumps, want)):
            ok += 1
            rep.obligation(True)
            continue
        bad = next((g for g in got if g not in want), None)
        what = 'INSERT with an explicit column list on the %s engine: %s' % (eng, ('statement fails: %s' % failed[0]) if failed else ('a stored row is %s, which no statement inserted (rows expected: %s ...)' % (bad, want[:2])))
        outc = rep.counterexample('insert:column-list:%s' % eng, what[:500], {'stmts': stmts[:6] + ['...'], 'unexpected_row': bad, 'failed': failed[:3]}, True)
        rep.obligation(outc == 'known')
    rep.cov['insert_mapping_probes'] = {'column_lists': len(lists), 'engines_agreeing': ok, 'of': n, 'note': 'every permutation / a third of the proper subsets of 4 columns; VALUES and SELECT sources; concrete probes'}


def insert_probes(rep):
    """NOT NULL / PRIMARY KEY columns must reject NULL, and a stored value is never silently replaced (NULL by 0).
    Every way of declaring the constraint (column-level NOT NULL, column-level PRIMARY KEY, table-level PRIMARY KEY (..),
    single and composite) is crossed with every way of producing a NULL for the column (explicit NULL, column omitted from
    the column list, NULL coming from a SELECT)."""
    import shutil
    from vlib.common import scratch_dir
    decls = [('column-level', 'create table t(a int not null, b int primary key, c int)', ('a', 'b')),
             ('table-level-single', 'create table t(a int, b int, c int, primary key(a))', ('a',)),
             ('table-level-second-column', 'create table t(a int, b int, c int, primary key(b))', ('b',)),
             ('table-level-composite', 'create table t(a int, b int, c int, primary key(a, b))', ('a', 'b')),
             ('table-level-with-not-null', 'create table t(a int not null, b int, c int, primary key(b))', ('a', 'b')),
             ('not-null-then-unique', 'create table t(a int not null unique, b int unique not null, c int)', ('a', 'b')),
             ('not-null-with-default-options', 'create table t(a int not null, b int not null primary key, c int null)', ('a', 'b')),
             ('primary-key-then-not-null', 'create table t(a int primary key not null, b int, c int not null)', ('a', 'c'))]
    for eng in ('mem', 'disk'):
        for dname, ddl, nn in decls:
            d = scratch_dir('c16') if eng == 'disk' else None
            tries = []
            k = 0
            for col in nn:
                others = [c for c in 'abc' if c != col]
                k += 1
                tries.append('insert into t values (%s)' % ', '.join('NULL' if c == col else str(10 * k) for c in 'abc'))
                k += 1
                tries.append('insert into t(%s) values (%s)' % (', '.join(others), ', '.join(str(10 * k) for _ in others)))
                k += 1
                tries.append('insert into t select %s from src' % ', '.join('n' if c == col else 'v + %d' % (10 * k) for c in 'abc'))
            stmts = [ddl, 'create table src(v int, n int)', 'insert into src values (0, NULL)'] + tries + ['insert into t values (1, 2, 3)', 'select a, b, c from t']
            inp = {'engine': eng, 'stmts': stmts}
            if d:
                inp.update(dir=d, block=4096, rowset=1 << 20)
            out, rc, err = rl('sql', inp)
            if d:
                shutil.rmtree(d, ignore_errors=True)
            res = {o['sql']: o for o in out if 'sql' in o}
            sel = res.get(stmts[-1])
            if sel is None or not sel.get('ok'):
                rep.fail_inconclusive('insert probe (%s) did not run on %s: %s' % (dname, eng, err[-200:]))
                continue
            accepted = [s_ for s_ in tries if res.get(s_, {}).get('ok')]
            rows = sel['rows']
            idx = {'a': 0, 'b': 1, 'c': 2}
            rep.cov['programs'] += 1
            stored_null = any(r[idx[c]] is None for r in rows for c in nn)
            if not accepted and not stored_null and ['1', '2', '3'] in rows:
                rep.obligation(True)
                continue
            if not accepted and not stored_null:
                rep.obligation(False)
                rep.fail_inconclusive('insert probe (%s, %s): the control row is missing: %s' % (dname, eng, json.dumps(rows)))
                continue
            key = 'insert:not-null:%s:%s:%s' % (eng, dname, 'null-stored' if stored_null else 'null-replaced-by-a-value')
            what = 'INSERT producing NULL for a NOT NULL / PRIMARY KEY column is accepted on the %s engine with %s (%d of %d statements, first: %s); table then holds %s' % (
                eng, ddl, len(accepted), len(tries), accepted[0] if accepted else '-', json.dumps(rows))
            out_c = rep.counterexample(key, what[:600], {'stmts': stmts, 'rows': rows, 'accepted': accepted}, True)
            rep.obligation(out_c == 'known')


def replay_cmd(path):
    print(json.dumps(json.load(open(path))['replay'], indent=1)[:6000])
    return 0


def null_storage_probes(rep):
    """"No value is silently replaced by another (e.g. NULL by 0)" on the storage side (column builders are async code
    outside the solver engines): for every storable column type, a nullable column on the disk engine that receives NULLs
    (explicit, omitted column, from a SELECT) between values returns them as NULL -- and the values as values -- exactly as
    the memory engine does (concrete probe; the type list is the one of the C06 column probe)."""
    import shutil
    from vlib.common import scratch_dir
    from . import c06p
    T = {k: v for k, v in c06p.type_values().items() if 'not null' not in v[0]}
    stmts, reads = [], []
    for name, (decl, vals) in T.items():
        t = 'n_' + name.replace('-', '_')
        some = [v for v in vals if v is not None][:3]
        stmts += ['create table %s(k int not null, v %s)' % (t, decl),
                  'insert into %s values (1, NULL), (2, %s), (3, NULL), (4, %s)' % (t, some[0], some[1]),
                  'insert into %s(k) values (5)' % t,
                  'insert into %s select k + 10, v from %s' % (t, t),
                  'insert into %s values (30, %s)' % (t, some[2 % len(some)])]
        q = 'select k, v, v is null from %s order by k' % t
        stmts.append(q)
        reads.append((name, q))
    res = {}
    for eng in ('mem', 'disk'):
        d = scratch_dir('c16n') if eng == 'disk' else None
        inp = {'engine': eng, 'stmts': stmts}
        if d:
            inp.update(dir=d, block=4096, rowset=1 << 20)
        out, rc, err = rl('sql', inp, timeout=300)
        if d:
            shutil.rmtree(d, ignore_errors=True)
        res[eng] = {o['sql']: o for o in out if 'sql' in o}
        if len(res[eng]) < len(set(stmts)):
            rep.fail_inconclusive('NULL storage probe did not complete on %s: %s' % (eng, err[-200:]))
            return
    rep.cov['programs'] += 1
    bad = 0
    for name, q in reads:
        a, b = res['mem'][q], res['disk'][q]
        if not a.get('ok') or a.get('panicked'):
            continue
        exp_null = {'1', '3', '5', '11', '13', '15'}
        ok_mem = all((r[1] is None) == (r[0] in exp_null) and r[2] == ('true' if r[0] in exp_null else 'false') for r in a['rows'])
        same = b.get('ok') and not b.get('panicked') and b['rows'] == a['rows']
        if ok_mem and same:
            continue
        bad += 1
        eng = 'disk' if ok_mem else 'memory'
        rows = b.get('rows') if ok_mem else a['rows']
        wrong = [r for r in (rows or []) if (r[1] is None) != (r[0] in exp_null) or r[2] != ('true' if r[0] in exp_null else 'false')][:4]
        what = 'a nullable %s column on the %s engine does not return what was stored: rows (k, v, v is null) %s (NULL was stored for k in 1, 3, 5, 11, 13, 15)' % (
            T[name][0], eng, json.dumps(wrong or rows)[:240])
        outc = rep.counterexample('stored-null:%s:%s' % (eng, name), what[:500], {'stmts': [s_ for s_ in stmts if 'n_' + name.replace('-', '_') in s_], 'memory': a.get('rows'), 'disk': b.get('rows')}, True)
        rep.obligation(outc == 'known')
    if not bad:
        rep.obligation(True)
