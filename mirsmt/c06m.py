"""C06, validity bitmaps of nullable blocks (engine M).

`NullableBlockIterator::{next_batch, skip}` pair the values its inner (non-nullable) iterator yields with the bits of the
block's validity bitmap.  Kani exhausts memory on this type (bitvec iteration), so its MIR is interpreted instead: the
bitmap bytes are symbolic, the iterator's position (after any sequence of skips and batches) and the batch length are
enumerated, the inner iterator is a contract that appends `n` arbitrary values to the array builder.  Obligation: after
the call the builder's validity bits are exactly bits [pos, pos + n) of the bitmap (LSB-first within each byte) and the
position has advanced by n."""
import json
import itertools, re, time
from z3 import BitVec, Extract, And, BoolVal, is_true
from vlib.common import Inconclusive
from . import engine
from .engine import make_vm, check, satisfiable, find_fn
from .vm import Ref, Cell, Enum, BV, Struct, Seq, Bits, Opaque, Unsupported, mk_int, concrete_int
from .mir import MirSyntax
from .natives import native, crate_contract, dv, bool_, CRATE_CONTRACTS

_BATCH = {}


@crate_contract(r'^<B as NonNullableBlockIterator<A>>::next_batch_non_null$',
                'the inner block iterator appends n (<= expected) values, all marked valid, to the builder and returns n (decided for plain blocks under C06/Kani)')
def _inner_next(vm, m, callee, args):
    n = _BATCH['n']
    b = dv(vm, args[2])
    while isinstance(b, Ref):
        b = dv(vm, b)
    valid, data = b.fields[0], b.fields[1]
    for i in range(n):
        valid.bits.append(BoolVal(True))
        data.items.append(BV(BitVec('inner_v%d_%d' % (_BATCH['call'], i), 32), True))
    _BATCH['call'] += 1
    return mk_int(n, 'usize')


@crate_contract(r'^<B as block::BlockIterator<A>>::skip$', 'the inner block iterator skips cnt values')
def _inner_skip(vm, m, callee, args):
    from .vm import UNIT
    k = concrete_int(dv(vm, args[1]))
    if 'inner' in _RLE and k is not None:
        _RLE['inner']['pos'] += k
    return UNIT


@crate_contract(r'^<<A as array::Array>::Builder as array::ArrayBuilder>::replace_bitmap$', 'ArrayBuilder::replace_bitmap(valid): the builder\'s validity bitmap becomes `valid` (mem::replace in every implementation)')
def _replace_bitmap(vm, m, callee, args):
    from .vm import UNIT
    b = dv(vm, args[0])
    while isinstance(b, Ref):
        b = dv(vm, b)
    nb = dv(vm, args[1])
    b.fields[0] = nb
    return UNIT


@native(r'^<bytes::Bytes as Deref>::deref$|^<bytes::Bytes as AsRef<\[u8\]>>::as_ref$', 'Bytes derefs to its bytes')
def _bytes_deref(vm, m, callee, args):
    v = dv(vm, args[0])
    return Ref(Cell(v)) if not isinstance(v, Ref) else v


@native(r'^(bitvec::slice::)?BitSlice::<u8(, (bitvec::order::)?Lsb0)?>::from_slice$', 'BitSlice::<u8, Lsb0>::from_slice: bit 8*i + j is bit j (from the least significant) of byte i')
def _from_slice(vm, m, callee, args):
    s = dv(vm, args[0])
    while isinstance(s, Ref):
        s = dv(vm, s)
    if not isinstance(s, Seq):
        raise Unsupported('from_slice of %r' % (s,))
    bits = []
    for b in s.items:
        b = dv(vm, b)
        for j in range(8):
            bits.append(Extract(j, j, b.v) == 1)
    return Ref(Cell(Bits(bits)))


@native(r'^<(bitvec::slice::)?BitSlice<.*> as (std::ops::)?Index<(std::ops::)?Range<usize>>>::index$', 'bits[start..end] (panics when out of range)')
def _bits_range(vm, m, callee, args):
    from .vm import NativePanic
    s = dv(vm, args[0])
    while isinstance(s, Ref):
        s = dv(vm, s)
    r = dv(vm, args[1])
    lo, hi = concrete_int(r.fields[0]), concrete_int(r.fields[1])
    if lo is None or hi is None:
        raise Unsupported('symbolic bit range')
    if lo > hi or hi > len(s.bits):
        raise NativePanic('bit range %d..%d out of range for %d bits' % (lo, hi, len(s.bits)))
    return Ref(Cell(Bits(s.bits[lo:hi])))


@native(r'^<\[u8\] as (std::ops::)?Index<(std::ops::)?Range(From|To)?<usize>>>::index$', 'bytes[a..b]')
def _bytes_range(vm, m, callee, args):
    from .vm import NativePanic
    s = dv(vm, args[0])
    while isinstance(s, Ref):
        s = dv(vm, s)
    r = dv(vm, args[1])
    kind = re.search(r'Range(From|To)?<usize>', callee).group(1)
    f = [concrete_int(x) for x in r.fields]
    lo, hi = (f[0], len(s.items)) if kind == 'From' else ((0, f[0]) if kind == 'To' else (f[0], f[1]))
    if lo is None or hi is None:
        raise Unsupported('symbolic byte range')
    if lo > hi or hi > len(s.items):
        raise NativePanic('byte range out of range')
    return Ref(Cell(Seq(s.items[lo:hi], 'slice')))


@native(r' as Iterator>::for_each::<', 'Iterator::for_each calls the closure on every element in order')
def _for_each(vm, m, callee, args):
    from .natives import it_items, call_closure
    from .vm import UNIT
    items, pan = it_items(vm, m, args[0])
    for c, x in items:
        if not (c is True or is_true(c)):
            raise Unsupported('for_each over a conditional stream')
        call_closure(vm, m, args[1], [x])
    return UNIT


def run(rep, thorough):
    t0 = time.time()
    try:
        vm = make_vm(True)
        f_next = find_fn(vm.prog, r'^nullable_block_iterator::<impl at src/storage/secondary/block/nullable_block_iterator\.rs:\d+:\d+: \d+:\d+>::next_batch$')
        f_skip = find_fn(vm.prog, r'^nullable_block_iterator::<impl at src/storage/secondary/block/nullable_block_iterator\.rs:\d+:\d+: \d+:\d+>::skip$')
    except (Inconclusive, Unsupported, MirSyntax) as ex:
        rep.fail_inconclusive('NullableBlockIterator: %s' % ex)
        return
    nbytes = 3 if thorough else 2
    total = nbytes * 8
    n_ob = 0
    # histories: an initial skip of s rows, then a first batch of a rows, then the batch under test of n rows
    hist = []
    for s in range(0, total):
        for n in (1, 2, 3):
            if s + n <= total:
                hist.append((s, 0, n))
    for a in (1, 3, 5, 7):
        for n in (1, 2):
            if a + n <= total:
                hist.append((0, a, n))
    if thorough:
        for s, a, n in itertools.product((1, 4, 6, 9), (1, 3, 4), (1, 3)):
            if s + a + n <= total:
                hist.append((s, a, n))
    for s, a, n in hist:
        desc = 'NullableBlockIterator: skip %d, batch %d, then a batch of %d rows over a %d-row bitmap' % (s, a, n, total)
        bitmap = Seq([BV(BitVec('bm%d' % i, 8), False) for i in range(nbytes)], 'bytes')
        it = Struct('NullableBlockIterator', [Opaque('inner'), mk_int(0, 'usize'), bitmap, Opaque('phantom')])
        itref = Ref(Cell(it))
        _BATCH['call'] = 0
        try:
            pc = ()
            if s:
                outs = vm.run(f_skip, [itref, mk_int(s, 'usize')], pc=pc)
                if len(outs) != 1 or outs[0].kind != 'ret':
                    raise Unsupported('skip did not return')
                itref, pc = outs[0].args[0], tuple(outs[0].pc)
            if a:
                _BATCH['n'] = a
                b0 = Ref(Cell(Struct('PrimitiveArrayBuilder', [Bits([]), Seq([])])))
                outs = vm.run(f_next, [itref, Enum('Option', 'Some', [mk_int(a, 'usize')]), b0], pc=pc)
                if len(outs) != 1 or outs[0].kind != 'ret':
                    raise Unsupported('first batch did not return')
                itref, pc = outs[0].args[0], tuple(outs[0].pc)
            _BATCH['n'] = n
            b1 = Ref(Cell(Struct('PrimitiveArrayBuilder', [Bits([]), Seq([])])))
            outs = vm.run(f_next, [itref, Enum('Option', 'Some', [mk_int(n, 'usize')]), b1], pc=pc)
        except (Unsupported, MirSyntax, KeyError, IndexError, AttributeError) as ex:
            rep.fail_inconclusive('%s: %s: %s' % (desc, type(ex).__name__, str(ex)[:300]))
            continue
        pos = s + a
        for o in outs:
            n_ob += 1
            rep.cov['programs'] += 1
            if o.kind != 'ret':
                st, m = satisfiable(list(o.pc))
                if st == 'unsat':
                    continue
                w = {'bitmap_bytes': [m.eval(b.v, model_completion=True).as_long() for b in bitmap.items]} if m is not None else None
                out = rep.counterexample('nullable-iterator:panics', '%s: panics (%s) with bitmap %s' % (desc, o.value, w), {'desc': desc, 'witness': w}, None)
                rep.obligation(out == 'known')
                continue
            it2 = vm.deref_value(o.args[0])
            bld = vm.deref_value(o.args[2])
            got = vm.deref_value(bld.fields[0])
            want = [Extract((pos + i) % 8, (pos + i) % 8, bitmap.items[(pos + i) // 8].v) == 1 for i in range(n)]
            newpos = concrete_int(it2.fields[1])
            ok_shape = isinstance(got, Bits) and len(got.bits) == n and newpos == pos + n
            claim = And([bool_(g) == w for g, w in zip(got.bits, want)]) if ok_shape else BoolVal(False)
            st, m = check(list(o.pc), claim)
            if st == 'unsat':
                rep.obligation(True)
                rep.sample({'obligation': desc, 'verdict': 'validity bits == bitmap bits [%d, %d) for every bitmap' % (pos, pos + n)}, cap=5)
                continue
            if st == 'unknown':
                rep.obligation(False)
                rep.fail_inconclusive('solver unknown: ' + desc)
                continue
            w = {'bitmap_bytes': [m.eval(b.v, model_completion=True).as_long() for b in bitmap.items], 'position': pos, 'batch': n,
                 'validity_returned': [bool(is_true(m.eval(bool_(g), model_completion=True))) for g in got.bits] if isinstance(got, Bits) else None,
                 'validity_expected': [bool(is_true(m.eval(x, model_completion=True))) for x in want], 'position_after': newpos}
            rp = replay(w)
            key = 'nullable-iterator:validity:%s' % ('offset-mod-8-ge-4' if pos % 8 >= 4 else 'other')
            what = '%s: validity bits %s, bitmap says %s (bitmap bytes %s); native replay: %s' % (desc, w['validity_returned'], w['validity_expected'], w['bitmap_bytes'], rp.get('line'))
            out = rep.counterexample(key, what[:500], {'desc': desc, 'witness': w, 'replay': rp}, rp['reproduced'])
            rep.obligation(out == 'known')
    rep.solver(time.time() - t0, n_ob)
    rep.cov['functions_encoded'] = list(rep.cov.get('functions_encoded', [])) + ['NullableBlockIterator::{next_batch, skip} and its closure (from MIR)']
    rep.cov['trusted_base'] = list(rep.cov.get('trusted_base', [])) + ['engine M natives: ' + ', '.join(sorted(vm.used_natives))[:600]] + \
        ['crate contract: ' + c for c in CRATE_CONTRACTS if 'next_batch_non_null' in c or 'replace_bitmap' in c or 'BlockIterator<A>>::skip' in c]
    if isinstance(rep.cov.get('bounds'), dict):
        rep.cov['bounds']['nullable block validity'] = '%d-row bitmap with symbolic bytes; every start position with batches of 1-3 rows, plus skip / batch / batch histories' % total


def replay(w):
    """Native replay on the real types: build a nullable i32 block whose bitmap has the witness bytes, skip to the position,
    read the batch and compare the validity bits."""
    from kani import run as krun
    try:
        line = krun.native_replay('c06_nullable_replay', [w['bitmap_bytes'], [w['position']], [w['batch']]])
    except Exception as ex:      # the replay binary is optional: without it the counterexample stays unconfirmed
        return {'reproduced': None, 'line': 'native replay unavailable: %s' % ex}
    return {'reproduced': True if line.startswith('REPLAY panic') else (False if line.startswith('REPLAY ok') else None), 'line': line}


# ================================================================================================ RLE block iterator
_RLE = {}


def _builder(vm, v):
    b = dv(vm, v)
    while isinstance(b, Ref):
        b = dv(vm, b)
    return b


def _opt_alts(vm, o):
    from .vm import SymEnum
    o = dv(vm, o)
    while isinstance(o, Ref):
        o = dv(vm, o)
    return o.alts if isinstance(o, SymEnum) else [(BoolVal(True), o)]


@crate_contract(r'^<<A as array::Array>::Builder as array::ArrayBuilder>::new$', 'ArrayBuilder::new(): an empty builder')
def _ab_new(vm, m, callee, args):
    return Struct('PrimitiveArrayBuilder', [Bits([]), Seq([])])


@crate_contract(r'^<<A as array::Array>::Builder as array::ArrayBuilder>::finish$', 'ArrayBuilder::finish(): the array of the pushed items')
def _ab_finish(vm, m, callee, args):
    b = _builder(vm, args[0])
    return Struct('PrimitiveArray', [b.fields[0], b.fields[1]])


@crate_contract(r'^<<A as array::Array>::Builder as array::ArrayBuilder>::push$', 'ArrayBuilder::push(Option<&item>) appends one (possibly NULL) item')
def _ab_push(vm, m, callee, args):
    from .vm import UNIT
    from z3 import If, Or, BitVecVal
    b = _builder(vm, args[0])
    valid, val = [], None
    for c, a in _opt_alts(vm, args[1]):
        if a.variant == 'Some':
            x = dv(vm, a.fields[0])
            while isinstance(x, Ref):
                x = dv(vm, x)
            valid.append(c)
            val = x.v if val is None else If(c, x.v, val)
    b.fields[0].bits.append(Or(valid) if valid else BoolVal(False))
    b.fields[1].items.append(BV(val if val is not None else BitVecVal(0, 32), True))
    return UNIT


@crate_contract(r'^<A as array::Array>::get$', 'Array::get(i): Some(&item) when valid, None when NULL')
def _arr_get(vm, m, callee, args):
    from .vm import SymEnum
    from z3 import Not
    a = _builder(vm, args[0])
    i = concrete_int(dv(vm, args[1]))
    v = bool_(a.fields[0].bits[i])
    item = a.fields[1].items[i]
    return SymEnum('Option', [(v, Enum('Option', 'Some', [Ref(Cell(item))])), (Not(v), Enum('Option', 'None'))])


@crate_contract(r'^<<A as array::Array>::Item as ToOwned>::to_owned$|^<<<A as array::Array>::Item as ToOwned>::Owned as (std::borrow::)?Borrow<<A as array::Array>::Item>>::borrow$',
                'to_owned / borrow between an item and its owned form keep the value')
def _own(vm, m, callee, args):
    x = dv(vm, args[0])
    while isinstance(x, Ref):
        x = dv(vm, x)
    return x if callee.endswith('to_owned') else Ref(Cell(x))


@crate_contract(r'^<B as block::BlockIterator<A>>::next_batch$', 'inner block iterator of an RLE block: next_batch(Some(1)) appends the next run value (0 when exhausted)')
def _rle_inner_next(vm, m, callee, args):
    st = _RLE['inner']
    if st['pos'] >= len(st['vals']):
        return mk_int(0, 'usize')
    valid, raw = st['vals'][st['pos']]
    st['pos'] += 1
    b = _builder(vm, args[2])
    b.fields[0].bits.append(valid)
    b.fields[1].items.append(BV(raw, True))
    return mk_int(1, 'usize')


def _rle_inner_skip(k):
    _RLE['inner']['pos'] += k


def run_rle(rep, thorough):
    """RleBlockIterator::{next_batch, skip, remaining_items} from MIR: concrete run lengths, symbolic (possibly NULL) run
    values; after skip(s), batches read back exactly rows [s, s+n) of the expanded sequence."""
    from z3 import Bool, And, Not, Or
    t0 = time.time()
    try:
        vm = make_vm(True)
        pat = r'^rle_block_iterator::<impl at src/storage/secondary/block/rle_block_iterator\.rs:\d+:\d+: \d+:\d+>::%s$'
        f_next, f_skip, f_rem = [find_fn(vm.prog, pat % k) for k in ('next_batch', 'skip', 'remaining_items')]
    except (Inconclusive, Unsupported, MirSyntax) as ex:
        rep.fail_inconclusive('RleBlockIterator: %s' % ex)
        return
    # the inner iterator's skip is the contract registered for the nullable iterator (returns unit); track the position here
    shapes = [(1,), (3,), (1, 1), (2, 1), (1, 3), (2, 2, 1), (1, 2, 3)] if not thorough else \
        [c for k in (1, 2, 3) for c in itertools.product((1, 2, 3), repeat=k)]
    n_ob = 0
    for runs in shapes:
        total = sum(runs)
        reads = [(s, n) for s in range(0, total) for n in ((1, 2, None) if not thorough else (1, 2, 3, None)) if n is None or s + n <= total + 1]
        for s, n in reads:
            desc = 'RleBlockIterator over runs %s: skip %d then next_batch(%s)' % (list(runs), s, n)
            vals = [(Bool('rv_valid%d' % i), BitVec('rv_raw%d' % i, 32)) for i in range(len(runs))]
            _RLE['inner'] = {'vals': vals, 'pos': 0}
            it = Struct('RleBlockIterator', [Opaque('inner'), Seq([mk_int(c, 'u32') for c in runs], 'vec'), mk_int(0, 'usize'), mk_int(0, 'usize'), mk_int(len(runs), 'usize'),
                                             Enum('Option', 'None'), mk_int(0, 'usize'), mk_int(total, 'usize'), BoolVal(True)])
            itref = Ref(Cell(it))
            try:
                pc = ()
                if s:
                    # the real skip calls block_iter.skip(k - 1): mirror it on the inner model through a one-shot contract
                    outs = vm.run(f_skip, [itref, mk_int(s, 'usize')], pc=pc)
                    if len(outs) != 1 or outs[0].kind != 'ret':
                        raise Unsupported('skip forks or panics (%s)' % [o.kind for o in outs])
                    itref, pc = outs[0].args[0], tuple(outs[0].pc)
                b1 = Ref(Cell(Struct('PrimitiveArrayBuilder', [Bits([]), Seq([])])))
                arg_n = Enum('Option', 'None') if n is None else Enum('Option', 'Some', [mk_int(n, 'usize')])
                outs = vm.run(f_next, [itref, arg_n, b1], pc=pc)
            except (Unsupported, MirSyntax, KeyError, IndexError, AttributeError, TypeError) as ex:
                rep.fail_inconclusive('%s: %s: %s' % (desc, type(ex).__name__, str(ex)[:300]))
                continue
            expanded = [vals[i] for i, c in enumerate(runs) for _ in range(c)]
            want_rows = expanded[s:] if n is None else expanded[s:s + n]
            for o in outs:
                n_ob += 1
                rep.cov['programs'] += 1
                if o.kind != 'ret':
                    st, m = satisfiable(list(o.pc))
                    if st == 'unsat':
                        continue
                    out = rep.counterexample('rle-iterator:panics', '%s: panics (%s)' % (desc, o.value), {'desc': desc}, None)
                    rep.obligation(out == 'known')
                    continue
                bld = vm.deref_value(o.args[2])
                got_valid, got_data = vm.deref_value(bld.fields[0]), vm.deref_value(bld.fields[1])
                cnt = concrete_int(o.value)
                ok_shape = cnt == len(want_rows) and len(got_valid.bits) == len(want_rows)
                if ok_shape:
                    claim = And([And(bool_(gv) == wv, Or(Not(wv), vm.deref_value(gd).v == wr)) for gv, gd, (wv, wr) in zip(got_valid.bits, got_data.items, want_rows)])
                else:
                    claim = BoolVal(False)
                st, m = check(list(o.pc), claim)
                if st == 'unsat':
                    rep.obligation(True)
                    rep.sample({'obligation': desc, 'verdict': 'reads back rows [%d, %d) of the expanded runs for every run value (NULL included)' % (s, s + len(want_rows))}, cap=5)
                    continue
                if st == 'unknown':
                    rep.obligation(False)
                    rep.fail_inconclusive('solver unknown: ' + desc)
                    continue
                w = {'runs': list(runs), 'skip': s, 'batch': n, 'returned_count': cnt, 'expected_count': len(want_rows),
                     'run_values': [None if not is_true(m.eval(v, model_completion=True)) else m.eval(r, model_completion=True).as_signed_long() for v, r in vals]}
                key = 'rle-iterator:rows:%s' % ('count' if not ok_shape else 'values')
                what = '%s: returned %s rows, expected %d; run values %s' % (desc, cnt, len(want_rows), w['run_values'])
                rp = replay_rle(w)
                what += '; native replay: %s' % rp.get('line')
                out = rep.counterexample(key, what[:500], {'desc': desc, 'witness': w, 'replay': rp}, rp['reproduced'])
                rep.obligation(out == 'known')
    # read, then skip, then read the rest: a skip that starts in the middle of a run (after part of it was consumed)
    for runs in shapes:
        total = sum(runs)
        combos = [(a, b) for a in range(1, total) for b in range(1, total - a + 1)]
        if not thorough:
            combos = [c for c in combos if c[0] <= 3 and c[1] <= 3]
        for a, b in combos:
            desc = 'RleBlockIterator over runs %s: next_batch(%d), skip %d, then the rest' % (list(runs), a, b)
            vals = [(Bool('rv_valid%d' % i), BitVec('rv_raw%d' % i, 32)) for i in range(len(runs))]
            _RLE['inner'] = {'vals': vals, 'pos': 0}
            it = Struct('RleBlockIterator', [Opaque('inner'), Seq([mk_int(c, 'u32') for c in runs], 'vec'), mk_int(0, 'usize'), mk_int(0, 'usize'), mk_int(len(runs), 'usize'),
                                             Enum('Option', 'None'), mk_int(0, 'usize'), mk_int(total, 'usize'), BoolVal(True)])
            itref = Ref(Cell(it))
            expanded = [vals[i] for i, c in enumerate(runs) for _ in range(c)]
            try:
                b1 = Ref(Cell(Struct('PrimitiveArrayBuilder', [Bits([]), Seq([])])))
                outs = vm.run(f_next, [itref, Enum('Option', 'Some', [mk_int(a, 'usize')]), b1], pc=())
                if len(outs) != 1 or outs[0].kind != 'ret':
                    raise Unsupported('first batch forks or panics (%s)' % [o.kind for o in outs])
                itref, pc = outs[0].args[0], tuple(outs[0].pc)
                outs = vm.run(f_skip, [itref, mk_int(b, 'usize')], pc=pc)
                if len(outs) != 1:
                    raise Unsupported('skip forks (%s)' % [o.kind for o in outs])
                if outs[0].kind != 'ret':
                    outs2 = outs
                else:
                    itref, pc = outs[0].args[0], tuple(outs[0].pc)
                    b2 = Ref(Cell(Struct('PrimitiveArrayBuilder', [Bits([]), Seq([])])))
                    outs2 = vm.run(f_next, [itref, Enum('Option', 'None'), b2], pc=pc)
            except (Unsupported, MirSyntax, KeyError, IndexError, AttributeError, TypeError) as ex:
                rep.fail_inconclusive('%s: %s: %s' % (desc, type(ex).__name__, str(ex)[:300]))
                continue
            want_rows = expanded[a + b:]
            for o in outs2:
                n_ob += 1
                rep.cov['programs'] += 1
                if o.kind != 'ret':
                    st, m = satisfiable(list(o.pc))
                    if st == 'unsat':
                        continue
                    w = {'runs': list(runs), 'read': a, 'skip': b, 'run_values': [None if not is_true(m.eval(v, model_completion=True)) else m.eval(r, model_completion=True).as_signed_long() for v, r in vals]}
                    rp = replay_rle_read_skip(w)
                    out = rep.counterexample('rle-iterator:read-skip-read:panics', '%s: panics (%s); native replay: %s' % (desc, str(o.value)[:80], rp.get('line')), {'desc': desc, 'witness': w, 'replay': rp}, rp['reproduced'])
                    rep.obligation(out == 'known')
                    continue
                bld = vm.deref_value(o.args[2])
                got_valid, got_data = vm.deref_value(bld.fields[0]), vm.deref_value(bld.fields[1])
                cnt = concrete_int(o.value)
                ok_shape = cnt == len(want_rows) and len(got_valid.bits) == len(want_rows)
                claim = And([And(bool_(gv) == wv, Or(Not(wv), vm.deref_value(gd).v == wr)) for gv, gd, (wv, wr) in zip(got_valid.bits, got_data.items, want_rows)]) if ok_shape else BoolVal(False)
                st, m = check(list(o.pc), claim)
                if st == 'unsat':
                    rep.obligation(True)
                    continue
                if st == 'unknown':
                    rep.obligation(False)
                    rep.fail_inconclusive('solver unknown: ' + desc)
                    continue
                w = {'runs': list(runs), 'read': a, 'skip': b, 'returned_count': cnt, 'expected_count': len(want_rows),
                     'run_values': [None if not is_true(m.eval(v, model_completion=True)) else m.eval(r, model_completion=True).as_signed_long() for v, r in vals]}
                rp = replay_rle_read_skip(w)
                what = '%s: returned %s rows, expected %d; run values %s; native replay: %s' % (desc, cnt, len(want_rows), w['run_values'], rp.get('line'))
                out = rep.counterexample('rle-iterator:read-skip-read:%s' % ('count' if not ok_shape else 'values'), what[:500], {'desc': desc, 'witness': w, 'replay': rp}, rp['reproduced'])
                rep.obligation(out == 'known')
    rep.solver(time.time() - t0, n_ob)
    rep.cov['functions_encoded'] = list(rep.cov.get('functions_encoded', [])) + ['RleBlockIterator::{next_batch, skip, get_next_element, get_cur_rle_count} (from MIR)']
    if isinstance(rep.cov.get('bounds'), dict):
        rep.cov['bounds']['rle block iterator'] = 'run-length shapes %s, every skip position, batches of 1-2 rows or the rest; run values (and NULL-ness) symbolic' % ('all of 1-3 runs of length 1-3' if thorough else str(shapes))


def replay_rle_read_skip(w):
    """read a, skip b, read the rest on the real RLE builder + iterator (native replay binary)."""
    from kani import run as krun
    vals = [255 if v is None else (v % 200) for v in w['run_values']]
    for i in range(1, len(vals)):
        if vals[i] == vals[i - 1]:
            vals[i] = (vals[i] + 1) % 200 if vals[i] != 255 else 7
    try:
        krun.ensure_replay_fn('c06_rle_read_skip_replay')
        line = krun.native_replay('c06_rle_read_skip_replay', [w['runs'], vals, [w['read']], [w['skip']]])
    except Exception as ex:
        return {'reproduced': None, 'line': 'native replay unavailable: %s' % ex}
    return {'reproduced': True if line.startswith('REPLAY panic') else (False if line.startswith('REPLAY ok') else None), 'line': line}


def replay_rle(w):
    """The same read on the real types: an RLE block over a nullable plain block built from the witness runs."""
    from kani import run as krun
    vals = [255 if v is None else (v % 200) for v in w['run_values']]
    # distinct values per run so that the builder keeps the witness run structure
    for i in range(1, len(vals)):
        if vals[i] == vals[i - 1]:
            vals[i] = (vals[i] + 1) % 200 if vals[i] != 255 else 7
    try:
        line = krun.native_replay('c06_rle_replay', [w['runs'], vals, [w['skip']], [w['batch'] or 0]])
    except Exception as ex:
        return {'reproduced': None, 'line': 'native replay unavailable: %s' % ex}
    return {'reproduced': True if line.startswith('REPLAY panic') else (False if line.startswith('REPLAY ok') else None), 'line': line}


# ================================================================================================ plain VARCHAR / BLOB block iterator
@native(r'^<&\[u8\] as (bytes::)?Buf>::get_u32_le$', 'Buf::get_u32_le on a byte-slice cursor: the next four bytes, little endian; the cursor advances')
def _get_u32_le(vm, m, callee, args):
    from z3 import Concat, simplify
    from .vm import NativePanic
    cur = args[0]                      # &mut &[u8]
    inner = vm._get(cur.cell, cur.path)
    s = dv(vm, inner)
    while isinstance(s, Ref):
        s = dv(vm, s)
    if len(s.items) < 4:
        raise NativePanic('get_u32_le past the end of the buffer')
    bs = [dv(vm, b).v for b in s.items[:4]]
    v = simplify(Concat(bs[3], bs[2], bs[1], bs[0]))
    vm._set(cur.cell, cur.path, Ref(Cell(Seq(s.items[4:], 'slice'))))
    return BV(v, False)


@crate_contract(r'^<T as BlobEncode>::from_byte_slice$', 'BlobEncode::from_byte_slice: the item is the byte slice itself (str / BlobRef are transparent wrappers)')
def _from_byte_slice(vm, m, callee, args):
    return args[0]


@crate_contract(r'^<<<T as BlobEncode>::ArrayType as array::Array>::Builder as array::ArrayBuilder>::push$', 'ArrayBuilder::push(Some(item)) appends the item (variable-width array)')
def _blob_push(vm, m, callee, args):
    from .vm import UNIT
    b = _builder(vm, args[0])
    o = dv(vm, args[1])
    while isinstance(o, Ref):
        o = dv(vm, o)
    if o.variant != 'Some':
        b.fields[0].items.append(None)
        return UNIT
    x = dv(vm, o.fields[0])
    while isinstance(x, Ref):
        x = dv(vm, x)
    b.fields[0].items.append(Seq(list(x.items), 'slice'))
    return UNIT


def run_blob(rep, thorough):
    """PlainBlobBlockIterator::{next_batch_non_null, skip, remaining_items} from MIR on a block of three values with
    concrete lengths (0-2 bytes each) and symbolic content, under read / skip / read patterns."""
    from z3 import And
    t0 = time.time()
    try:
        vm = make_vm(True)
        pat = r'^blob_block_iterator::<impl at src/storage/secondary/block/blob_block_iterator\.rs:\d+:\d+: \d+:\d+>::%s$'
        f_next = find_fn(vm.prog, pat % 'next_batch_non_null')
        f_skip = find_fn(vm.prog, pat % 'skip')
        f_rem = find_fn(vm.prog, pat % 'remaining_items')
        f_new = find_fn(vm.prog, pat % 'new')
    except (Inconclusive, Unsupported, MirSyntax) as ex:
        rep.fail_inconclusive('PlainBlobBlockIterator: %s' % ex)
        return
    pats = [[('batch', 1), ('skip', 1), ('batch', 1)], [('skip', 1), ('batch', 2)], [('batch', 1), ('batch', 2)], [('batch', 2), ('batch', 1)], [('skip', 2), ('batch', 1)], [('batch', 3)]]
    lenses = [(1, 1, 1), (0, 1, 2), (2, 0, 1), (1, 2, 0)] if not thorough else list(itertools.product((0, 1, 2), repeat=3))
    n_ob = 0
    for lens in lenses:
        for pat_ in pats:
            desc = 'PlainBlobBlockIterator over values of %s bytes: %s' % (list(lens), ', '.join('%s %d' % p for p in pat_))
            data = [[BitVec('s%d_%d' % (i, j), 8) for j in range(l)] for i, l in enumerate(lens)]
            ends, acc = [], 0
            for l in lens:
                acc += l
                ends.append(acc)
            block = []
            for e in ends:
                block += [BV(BitVecVal_(e >> (8 * k) & 255), False) for k in range(4)]
            for d in data:
                block += [BV(b, False) for b in d]
            try:
                outs = vm.run(f_new, [Seq(block, 'bytes'), mk_int(3, 'usize')])
                if len(outs) != 1 or outs[0].kind != 'ret':
                    raise Unsupported('new did not return')
                itref = Ref(Cell(outs[0].value))
                pc = tuple(outs[0].pc)
                pos = 0
                claims = []
                bad_shape = False
                for kind, c in pat_:
                    if kind == 'skip':
                        o = vm.run(f_skip, [itref, mk_int(c, 'usize')], pc=pc)
                        if len(o) != 1 or o[0].kind != 'ret':
                            raise Unsupported('skip forks or panics')
                        itref, pc = o[0].args[0], tuple(o[0].pc)
                        pos += c
                        continue
                    bld = Ref(Cell(Struct('BytesArrayBuilder', [Seq([])])))
                    o = vm.run(f_next, [itref, Enum('Option', 'Some', [mk_int(c, 'usize')]), bld], pc=pc)
                    if len(o) != 1:
                        raise Unsupported('next_batch forks (%d paths)' % len(o))
                    if o[0].kind != 'ret':
                        bad_shape = 'panics: %s' % (o[0].value,)
                        pc = tuple(o[0].pc)
                        break
                    itref, pc = o[0].args[0], tuple(o[0].pc)
                    got = vm.deref_value(vm.deref_value(o[0].args[2]).fields[0]).items
                    if concrete_int(o[0].value) != c or len(got) != c:
                        bad_shape = 'returned %s rows, expected %d' % (concrete_int(o[0].value), c)
                        break
                    for j in range(c):
                        g = got[j]
                        want = data[pos + j]
                        if g is None or len(g.items) != len(want):
                            bad_shape = 'row %d has %s bytes, expected %d' % (pos + j, None if g is None else len(g.items), len(want))
                            break
                        claims += [vm.deref_value(x).v == w for x, w in zip(g.items, want)]
                    if bad_shape:
                        break
                    pos += c
                if not bad_shape:
                    o = vm.run(f_rem, [itref], pc=pc)
                    if len(o) == 1 and o[0].kind == 'ret' and concrete_int(o[0].value) != 3 - pos:
                        bad_shape = 'remaining_items %s, expected %d' % (concrete_int(o[0].value), 3 - pos)
            except (Unsupported, MirSyntax, KeyError, IndexError, AttributeError, TypeError) as ex:
                rep.fail_inconclusive('%s: %s: %s' % (desc, type(ex).__name__, str(ex)[:300]))
                continue
            n_ob += 1
            rep.cov['programs'] += 1
            if bad_shape:
                st, m = satisfiable(list(pc))
                if st == 'unsat':
                    continue
                w = {'lens': list(lens), 'pattern': pat_, 'problem': bad_shape}
            else:
                st, m = check(list(pc), And(claims) if claims else BoolVal(True))
                if st == 'unsat':
                    rep.obligation(True)
                    rep.sample({'obligation': desc, 'verdict': 'every value read back byte for byte, for every content'}, cap=4)
                    continue
                if st == 'unknown':
                    rep.obligation(False)
                    rep.fail_inconclusive('solver unknown: ' + desc)
                    continue
                w = {'lens': list(lens), 'pattern': pat_, 'problem': 'content differs'}
            rp = replay_blob(w)
            what = '%s: %s; native replay: %s' % (desc, w['problem'], rp.get('line'))
            out = rep.counterexample('blob-iterator:%s' % ('after-skip' if any(k == 'skip' for k, _ in pat_) else 'sequential'), what[:500], {'desc': desc, 'witness': w, 'replay': rp}, rp['reproduced'])
            rep.obligation(out == 'known')
    rep.solver(time.time() - t0, n_ob)
    rep.cov['functions_encoded'] = list(rep.cov.get('functions_encoded', [])) + ['PlainBlobBlockIterator::{new, next_batch_non_null, skip, remaining_items} (from MIR)']
    if isinstance(rep.cov.get('bounds'), dict):
        rep.cov['bounds']['plain varchar block iterator'] = 'three values with lengths %s (content symbolic), six read / skip / read patterns' % ('in {0,1,2}^3' if thorough else str(lenses))


def BitVecVal_(x):
    from z3 import BitVecVal
    return BitVecVal(x, 8)


def replay_blob(w):
    from kani import run as krun
    flat = []
    for kind, c in w['pattern']:
        flat += [0 if kind == 'batch' else 1, c]
    try:
        line = krun.native_replay('c06_blob_replay', [w['lens'], flat])
    except Exception as ex:
        return {'reproduced': None, 'line': 'native replay unavailable: %s' % ex}
    return {'reproduced': True if line.startswith('REPLAY panic') else (False if line.startswith('REPLAY ok') else None), 'line': line}


# ================================================================================================ fixed-width CHAR block iterator
def _first_true(vm, m, callee, args, with_item):
    """itertools find_position / Iterator::position: one fork per index of the first element satisfying the predicate."""
    from .natives import it_items, call_closure, some, NONE
    from .vm import NativeFork, Tup
    from z3 import And, Not
    items, pan = it_items(vm, m, args[0])
    preds = []
    for c, x in items:
        v, p = call_closure(vm, m, args[1], [x] if not with_item else [Ref(Cell(x))])
        preds.append(bool_(v))
    alts = []
    for k in range(len(preds) + 1):
        cond = And([Not(preds[i]) for i in range(k)] + ([preds[k]] if k < len(preds) else []))
        if k < len(preds):
            val = (lambda m2, a2, k=k: some(Tup([mk_int(k, 'usize'), items[k][1]]) if with_item else mk_int(k, 'usize')))
        else:
            val = (lambda m2, a2: NONE())
        alts.append((cond, val))
    raise NativeFork(alts)


@native(r' as (itertools::)?Itertools>::find_position::<', 'Itertools::find_position(pred): Some((index, item)) of the first item satisfying pred; one fork per index')
def _find_position(vm, m, callee, args):
    return _first_true(vm, m, callee, args, True)


@native(r' as Iterator>::position::<', 'Iterator::position(pred): Some(index) of the first item satisfying pred; one fork per index')
def _position(vm, m, callee, args):
    return _first_true(vm, m, callee, args, False)


@native(r'^(std::str::|core::str::)?from_utf8$', 'str::from_utf8 on ASCII bytes: Ok(the same bytes)')
def _from_utf8(vm, m, callee, args):
    return Enum('Result', 'Ok', [args[0]])


@crate_contract(r'^<BytesArrayBuilder<str> as array::ArrayBuilder>::push$', 'StringArrayBuilder::push(Some(s)) appends the string (variable-width array)')
def _str_push(vm, m, callee, args):
    return _blob_push(vm, m, callee, args)


def run_char(rep, thorough):
    """PlainCharBlockIterator (fixed-width CHAR(w) blocks: values padded with NUL): values of concrete length 0..w with symbolic
    non-NUL ASCII content, every start row and batch size; each value is read back exactly (a full-width value included)."""
    from z3 import And, ULT
    t0 = time.time()
    try:
        vm = make_vm(True)
        pat = r'^char_block_iterator::<impl at src/storage/secondary/block/char_block_iterator\.rs:\d+:\d+: \d+:\d+>::%s$'
        f_next = find_fn(vm.prog, pat % 'next_batch_non_null')
        f_new = find_fn(vm.prog, pat % 'new')
    except (Inconclusive, Unsupported, MirSyntax) as ex:
        rep.fail_inconclusive('PlainCharBlockIterator: %s' % ex)
        return
    w = 2
    shapes = [(2, 1, 0), (2, 2, 1), (1, 2, 2), (0, 2, 0)] if not thorough else list(itertools.product((0, 1, 2), repeat=3))
    n_ob = 0
    for lens in shapes:
        for start, batch in ((0, 3), (0, 1), (1, 2), (2, 1), (1, 1)):
            desc = 'PlainCharBlockIterator (width %d) over values of %s bytes: from row %d read %d' % (w, list(lens), start, batch)
            data, block, pre = [], [], []
            for i, l in enumerate(lens):
                bs = [BitVec('c%d_%d' % (i, j), 8) for j in range(l)]
                data.append(bs)
                pre += [And(b != 0, ULT(b, 128)) for b in bs]
                block += [BV(b, False) for b in bs] + [BV(BitVecVal_(0), False) for _ in range(w - l)]
            try:
                outs = vm.run(f_new, [Seq(block, 'bytes'), mk_int(3, 'usize'), mk_int(w, 'usize')], pc=tuple(pre))
                it = outs[0].value
                it.fields[2] = mk_int(start, 'usize') if concrete_int(it.fields[2]) == 0 else it.fields[2]
                bld = Ref(Cell(Struct('BytesArrayBuilder', [Seq([])])))
                outs = vm.run(f_next, [Ref(Cell(it)), Enum('Option', 'Some', [mk_int(batch, 'usize')]), bld], pc=tuple(outs[0].pc))
            except (Unsupported, MirSyntax, KeyError, IndexError, AttributeError, TypeError) as ex:
                rep.fail_inconclusive('%s: %s: %s' % (desc, type(ex).__name__, str(ex)[:300]))
                continue
            for o in outs:
                st0, _ = satisfiable(list(o.pc))
                if st0 == 'unsat':
                    continue
                n_ob += 1
                rep.cov['programs'] += 1
                problem, claims = None, []
                if o.kind != 'ret':
                    problem = 'panics: %s' % (o.value,)
                else:
                    got = vm.deref_value(vm.deref_value(o.args[2]).fields[0]).items
                    want = data[start:start + batch]
                    if concrete_int(o.value) != len(want) or len(got) != len(want):
                        problem = 'returned %s rows, expected %d' % (concrete_int(o.value), len(want))
                    else:
                        for j, (g, wv) in enumerate(zip(got, want)):
                            if g is None or len(g.items) != len(wv):
                                problem = 'row %d has %s bytes, expected %d' % (start + j, None if g is None else len(g.items), len(wv))
                                break
                            claims += [vm.deref_value(x).v == b for x, b in zip(g.items, wv)]
                if problem is None:
                    st, m = check(list(o.pc), And(claims) if claims else BoolVal(True))
                    if st == 'unsat':
                        rep.obligation(True)
                        continue
                    if st == 'unknown':
                        rep.obligation(False)
                        rep.fail_inconclusive('solver unknown: ' + desc)
                        continue
                    problem = 'content differs'
                wit = {'lens': list(lens), 'start': start, 'batch': batch, 'width': w, 'problem': problem}
                rp = replay_char(wit)
                what = '%s: %s; native replay: %s' % (desc, problem, rp.get('line'))
                out = rep.counterexample('char-iterator:%s' % ('full-width-value' if any(l == w for l in lens) else 'other'), what[:500], {'desc': desc, 'witness': wit, 'replay': rp}, rp['reproduced'])
                rep.obligation(out == 'known')
        rep.sample({'obligation': 'PlainCharBlockIterator (width %d) over values of %s bytes' % (w, list(lens)), 'verdict': 'every start row / batch reads the values back exactly'}, cap=16)
    rep.solver(time.time() - t0, n_ob)
    rep.cov['functions_encoded'] = list(rep.cov.get('functions_encoded', [])) + ['PlainCharBlockIterator::{new, next_batch_non_null} (from MIR)']
    if isinstance(rep.cov.get('bounds'), dict):
        rep.cov['bounds']['fixed-width char block iterator'] = 'CHAR(2) blocks of three values with lengths %s, non-NUL ASCII content symbolic, five start / batch combinations' % ('in {0,1,2}^3' if thorough else str(shapes))


def replay_char(wit):
    from kani import run as krun
    try:
        line = krun.native_replay('c06_char_replay', [wit['lens'], [wit['width']], [wit['start']], [wit['batch']]])
    except Exception as ex:
        return {'reproduced': None, 'line': 'native replay unavailable: %s' % ex}
    return {'reproduced': True if line.startswith('REPLAY panic') else (False if line.startswith('REPLAY ok') else None), 'line': line}


# ------------------------------------------------------------------------------------------------ RLE block *builder*
_RLEB = {}


@crate_contract(r'^<B as block::BlockBuilder<A>>::append$', 'the inner block builder of an RLE block appends the (possibly NULL) run value it is given')
def _rleb_inner_append(vm, m, callee, args):
    from .vm import UNIT
    _RLEB['items'].append((tuple(m.pc), args[1]))
    return UNIT


def run_rle_builder(rep, thorough):
    """RleBlockBuilder::append from MIR (generic in the array and the inner builder): N symbolic, possibly NULL values are
    appended to an empty builder; the run values handed to the inner builder, repeated by the recorded run lengths (the
    last run being `cur_count`, which `finish` pushes), must be exactly the input sequence, and every count >= 1.
    Together with the RLE iterator obligations (any counts, any run values) and the varint codec (Kani) this closes the
    round trip of run-length blocks except for the byte layout written by `finish` / read by `decode_rle_block`."""
    from z3 import Bool, And, Not, Or
    t0 = time.time()
    try:
        vm = make_vm(True)
        f_app = find_fn(vm.prog, r'^rle_block_builder::<impl at src/storage/secondary/block/rle_block_builder\.rs:\d+:\d+: \d+:\d+>::append$')
    except (Inconclusive, Unsupported, MirSyntax) as ex:
        rep.fail_inconclusive('RleBlockBuilder: %s' % ex)
        return
    n_ob = 0
    for n in ((1, 2, 3, 4) if thorough else (1, 2, 3)):
        desc = 'RleBlockBuilder::append x %d' % n
        vals = [(Bool('bv_valid%d' % i), BitVec('bv_raw%d' % i, 32)) for i in range(n)]
        st = Struct('RleBlockBuilder', [Opaque('inner-builder'), Seq([], 'vec'), Enum('Option', 'None'), mk_int(0, 'u32')])
        paths = [((), Ref(Cell(st)), [])]          # (pc, builder ref, inner items so far)
        try:
            for i, (v, r) in enumerate(vals):
                nxt = []
                for pc, bref, inner in paths:
                    for present in (True, False):
                        item = Enum('Option', 'Some', [Ref(Cell(BV(r, True)))]) if present else Enum('Option', 'None')
                        import copy
                        b2 = copy.deepcopy(bref)
                        _RLEB['items'] = []
                        outs = vm.run(f_app, [b2, item], pc=tuple(pc) + ((v,) if present else (Not(v),)))
                        for o in outs:
                            if o.kind != 'ret':
                                nxt.append((tuple(o.pc), None, inner))
                                continue
                            added = [it for p_, it in _RLEB['items'] if set(map(str, p_)) <= set(map(str, o.pc))]
                            nxt.append((tuple(o.pc), o.args[0], inner + [(present, r) for _ in added]))
                paths = nxt
        except (Unsupported, MirSyntax, KeyError, IndexError, AttributeError, TypeError) as ex:
            rep.fail_inconclusive('%s: %s: %s' % (desc, type(ex).__name__, str(ex)[:300]))
            continue
        rep.cov['programs'] += 1
        for pc, bref, inner in paths:
            n_ob += 1
            if bref is None:
                stv, m = satisfiable(list(pc))
                if stv == 'unsat':
                    rep.obligation(True)
                    continue
                out = rep.counterexample('rle-builder:panics', '%s panics' % desc, {'desc': desc}, None)
                rep.obligation(out == 'known')
                continue
            b = vm.deref_value(bref)
            counts = [concrete_int(vm.deref_value(c)) for c in vm.deref_value(b.fields[1]).items] + [concrete_int(vm.deref_value(b.fields[3]))]
            if any(c is None for c in counts):
                rep.fail_inconclusive('%s: symbolic run length' % desc)
                continue
            shape_ok = len(counts) == len(inner) and all(c >= 1 for c in counts) and sum(counts) == n
            if shape_ok:
                expanded = [inner[j] for j, c in enumerate(counts) for _ in range(c)]
                claim = And([And(BoolVal(p) == v, Or(Not(v), rr == r)) for (p, rr), (v, r) in zip(expanded, vals)])
            else:
                claim = BoolVal(False)
            stv, m = check(list(pc), claim)
            if stv == 'unsat':
                rep.obligation(True)
                rep.sample({'obligation': desc, 'verdict': 'run values x run lengths %s expand to the appended sequence' % counts}, cap=4)
                continue
            if stv == 'unknown':
                rep.obligation(False)
                rep.fail_inconclusive('solver unknown: ' + desc)
                continue
            w = {'values': [None if not is_true(m.eval(v, model_completion=True)) else m.eval(r, model_completion=True).as_signed_long() for v, r in vals],
                 'run_lengths': counts, 'runs_handed_to_inner_builder': len(inner)}
            rp = replay_rle_builder(w)
            what = '%s: appended %s, builder holds %d run value(s) with lengths %s; end to end: %s' % (desc, w['values'], len(inner), counts, json.dumps(rp['how'])[:200])
            out = rep.counterexample('rle-builder:runs', what[:500], {'witness': w, 'replay': rp}, rp['reproduced'])
            rep.obligation(out == 'known')
    rep.solver(time.time() - t0, n_ob)
    rep.cov['functions_encoded'] = list(rep.cov.get('functions_encoded', [])) + ['RleBlockBuilder::append (from MIR)']
    if isinstance(rep.cov.get('bounds'), dict):
        rep.cov['bounds']['rle block builder'] = '1-%d appended values, each NULL or any i32; inner builder a contract' % (4 if thorough else 3)


def replay_rle_builder(w):
    """The same appends on the real types: RleBlockBuilder over a nullable plain block, read back through the real
    RleBlockIterator by the native replay binary (values renamed to small integers keeping their equalities)."""
    from kani import run as krun
    names = {}
    vals = []
    for v in w['values']:
        if v is None:
            vals.append(255)
        else:
            vals.append(names.setdefault(v, len(names) + 1))
    try:
        line = krun.native_replay('c06_rle_replay', [[1] * len(vals), vals, [0], [0]])
    except Exception as ex:
        return {'reproduced': None, 'how': {'note': 'native replay unavailable: %s' % ex}}
    return {'reproduced': True if line.startswith('REPLAY panic') else (False if line.startswith('REPLAY ok') else None), 'how': {'native': line[:300]}}


# ------------------------------------------------------------------------------------------------ dictionary block *builder*
_DICT = {}


@crate_contract(r'^std::collections::HashMap::<<<A as array::Array>::Item as ToOwned>::Owned, i32>::get::<', 'HashMap::get(key): the value stored under an equal key (one fork per entry), None otherwise; keys are i32 payloads here')
def _dict_get(vm, m, callee, args):
    from .vm import NativeFork
    from z3 import And, Not
    h = dv(vm, args[0])
    k = dv(vm, args[1]).v
    entries = h.data['entries']
    alts = []
    for j, (kj, vj) in enumerate(entries):
        cond = And([kk != k for kk, _ in entries[:j]] + [kj == k])
        alts.append((cond, (lambda m2, a2, vj=vj: Enum('Option', 'Some', [Ref(Cell(vj))]))))
    alts.append((And([kk != k for kk, _ in entries]) if entries else BoolVal(True), lambda m2, a2: Enum('Option', 'None')))
    raise NativeFork(alts)


@crate_contract(r'^std::collections::HashMap::<<<A as array::Array>::Item as ToOwned>::Owned, i32>::insert$', 'HashMap::insert(key, value) on a key known to be absent: a new entry')
def _dict_insert(vm, m, callee, args):
    h = dv(vm, args[0])
    h.data['entries'] = h.data['entries'] + [(dv(vm, args[1]).v, dv(vm, args[2]))]
    return Enum('Option', 'None')


@crate_contract(r'^<rle_block_builder::RleBlockBuilder<primitive_array::PrimitiveArray<i32>, primitive_block_builder::PlainPrimitiveBlockBuilder<i32>> as block::BlockBuilder<primitive_array::PrimitiveArray<i32>>>::append$',
                'the code column of a dictionary block: RleBlockBuilder<I32Array, _>::append records the code (the RLE builder itself is decided separately)')
def _dict_rle_append(vm, m, callee, args):
    from .vm import UNIT
    o = args[1]
    code = dv(vm, o.fields[0])
    _DICT['codes'].append((tuple(m.pc), code))
    return UNIT


def run_dict_builder(rep, thorough):
    """DictBlockBuilder::append from MIR: N symbolic, possibly NULL values; the codes handed to the code column and the
    dictionary handed to the data builder must decode (as DictBlockIterator decodes them: NULL for i32::MIN, otherwise
    entry code - (i32::MIN + 1)) to exactly the appended sequence."""
    from z3 import Bool, And, Not, Or, BitVecVal
    import copy
    t0 = time.time()
    try:
        vm = make_vm(True)
        f_app = find_fn(vm.prog, r'^dict_block_builder::<impl at src/storage/secondary/block/dict_block_builder\.rs:\d+:\d+: \d+:\d+>::append$')
    except (Inconclusive, Unsupported, MirSyntax) as ex:
        rep.fail_inconclusive('DictBlockBuilder: %s' % ex)
        return
    MIN = -(1 << 31)
    n_ob = 0
    for n in ((1, 2, 3, 4) if thorough else (1, 2, 3)):
        desc = 'DictBlockBuilder::append x %d' % n
        vals = [(Bool('dv_valid%d' % i), BitVec('dv_raw%d' % i, 32)) for i in range(n)]
        st = Struct('DictBlockBuilder', [Opaque('dict_map', {'entries': []}), Opaque('data-builder'), Opaque('rle-builder'), mk_int(MIN, 'i32')])
        paths = [((), Ref(Cell(st)), [], [])]     # pc, builder, codes, dictionary items
        try:
            for i, (v, r) in enumerate(vals):
                nxt = []
                for pc, bref, codes, items in paths:
                    for present in (True, False):
                        item = Enum('Option', 'Some', [Ref(Cell(BV(r, True)))]) if present else Enum('Option', 'None')
                        b2 = copy.deepcopy(bref)
                        _DICT['codes'] = []
                        _RLEB['items'] = []
                        outs = vm.run(f_app, [b2, item], pc=tuple(pc) + ((v,) if present else (Not(v),)))
                        for o in outs:
                            if o.kind != 'ret':
                                nxt.append((tuple(o.pc), None, codes, items))
                                continue
                            on_path = lambda p_: set(map(str, p_)) <= set(map(str, o.pc))
                            nc = [c for p_, c in _DICT['codes'] if on_path(p_)]
                            ni = [it for p_, it in _RLEB['items'] if on_path(p_)]
                            nxt.append((tuple(o.pc), o.args[0], codes + nc, items + [r for _ in ni]))
                paths = nxt
        except (Unsupported, MirSyntax, KeyError, IndexError, AttributeError, TypeError) as ex:
            rep.fail_inconclusive('%s: %s: %s' % (desc, type(ex).__name__, str(ex)[:300]))
            continue
        rep.cov['programs'] += 1
        for pc, bref, codes, items in paths:
            n_ob += 1
            if bref is None:
                stv, m = satisfiable(list(pc))
                if stv == 'unsat':
                    rep.obligation(True)
                    continue
                out = rep.counterexample('dict-builder:panics', '%s panics' % desc, {'desc': desc}, None)
                rep.obligation(out == 'known')
                continue
            if len(codes) != n:
                claim = BoolVal(False)
            else:
                cl = []
                for (v, r), c in zip(vals, codes):
                    decoded_null = c.v == BitVecVal(MIN, 32)
                    hit = Or([And(c.v == BitVecVal(MIN + 1 + j, 32), items[j] == r) for j in range(len(items))]) if items else BoolVal(False)
                    cl.append(And(decoded_null == Not(v), Or(Not(v), hit)))
                # dictionary entries are pairwise distinct (an entry stored twice would still decode, but wastes the block)
                cl += [items[a] != items[b] for a in range(len(items)) for b in range(a + 1, len(items))]
                claim = And(cl)
            stv, m = check(list(pc), claim)
            if stv == 'unsat':
                rep.obligation(True)
                rep.sample({'obligation': desc, 'verdict': 'codes + dictionary (%d entries) decode to the appended sequence' % len(items)}, cap=4)
                continue
            if stv == 'unknown':
                rep.obligation(False)
                rep.fail_inconclusive('solver unknown: ' + desc)
                continue
            w = {'values': [None if not is_true(m.eval(v, model_completion=True)) else m.eval(r, model_completion=True).as_signed_long() for v, r in vals],
                 'codes': [m.eval(c.v, model_completion=True).as_signed_long() - MIN for c in codes], 'dictionary': [m.eval(x, model_completion=True).as_signed_long() for x in items]}
            rp = replay_dict_builder(w)
            what = '%s: appended %s; codes (offset from i32::MIN) %s, dictionary %s; end to end: %s' % (desc, w['values'], w['codes'], w['dictionary'], json.dumps(rp['how'])[:200])
            out = rep.counterexample('dict-builder:codes', what[:500], {'witness': w, 'replay': rp}, rp['reproduced'])
            rep.obligation(out == 'known')
    rep.solver(time.time() - t0, n_ob)
    rep.cov['functions_encoded'] = list(rep.cov.get('functions_encoded', [])) + ['DictBlockBuilder::append (from MIR)']
    if isinstance(rep.cov.get('bounds'), dict):
        rep.cov['bounds']['dictionary block builder'] = '1-%d appended values, each NULL or any i32; HashMap as an association list, code column and data builder contracts' % (4 if thorough else 3)


def replay_dict_builder(w):
    """The same appends on the real DictBlockBuilder, read back through the real DictBlockIterator (native replay)."""
    from kani import run as krun
    names, vals = {}, []
    for v in w['values']:
        vals.append(255 if v is None else names.setdefault(v, len(names) + 1))
    try:
        line = krun.native_replay('c06_dict_replay', [vals])
    except Exception as ex:
        return {'reproduced': None, 'how': {'note': 'native replay unavailable: %s' % ex}}
    return {'reproduced': True if line.startswith('REPLAY panic') else (False if line.startswith('REPLAY ok') else None), 'how': {'native': line[:300]}}


# ------------------------------------------------------------------------------------------------ dictionary block *iterator*
@crate_contract(r'^<rle_block_iterator::RleBlockIterator<primitive_array::PrimitiveArray<i32>, primitive_block_iterator::PlainPrimitiveBlockIterator<i32>> as block::BlockIterator<primitive_array::PrimitiveArray<i32>>>::next_batch$',
                'the code column of a dictionary block: RleBlockIterator<I32Array, _>::next_batch appends the next codes (never NULL) and returns their number (the RLE iterator itself is decided separately)')
def _dict_rle_next(vm, m, callee, args):
    b = _builder(vm, args[2])
    codes = _DICT['read_codes']
    for c in codes:
        b.fields[0].bits.append(BoolVal(True))
        b.fields[1].items.append(BV(c, True))
    return mk_int(len(codes), 'usize')


@crate_contract(r'^std::collections::HashMap::<i32, <<A as array::Array>::Item as ToOwned>::Owned>::get::<i32>$', 'HashMap::<i32, item>::get(code): the entry stored under that code (one fork per entry), None otherwise')
def _dict_get_code(vm, m, callee, args):
    from .vm import NativeFork
    from z3 import And
    h = dv(vm, args[0])
    k = dv(vm, args[1]).v
    entries = h.data['entries']
    alts = [(kj == k, (lambda m2, a2, vj=vj: Enum('Option', 'Some', [Ref(Cell(vj))]))) for kj, vj in entries]
    alts.append((And([kj != k for kj, _ in entries]) if entries else BoolVal(True), lambda m2, a2: Enum('Option', 'None')))
    raise NativeFork(alts)


def run_dict_iterator(rep, thorough):
    """DictBlockIterator::next_batch from MIR: the code column yields K arbitrary codes, the dictionary holds D entries
    under the codes i32::MIN + 1 ..; the values pushed to the array builder are NULL for the code i32::MIN and entry
    code - (i32::MIN + 1) otherwise (codes outside the dictionary -- a damaged block -- are outside the claim)."""
    from z3 import Or, And, Not, BitVecVal
    t0 = time.time()
    try:
        vm = make_vm(True)
        f_next = find_fn(vm.prog, r'^dict_block_iterator::<impl at src/storage/secondary/block/dict_block_iterator\.rs:\d+:\d+: \d+:\d+>::next_batch$')
    except (Inconclusive, Unsupported, MirSyntax) as ex:
        rep.fail_inconclusive('DictBlockIterator: %s' % ex)
        return
    MIN = -(1 << 31)
    n_ob = 0
    for D in ((1, 2, 3) if thorough else (1, 2)):
        for K in ((1, 2, 3) if thorough else (1, 2)):
            desc = 'DictBlockIterator::next_batch: %d codes over a dictionary of %d entries' % (K, D)
            codes = [BitVec('code%d' % i, 32) for i in range(K)]
            entries = [(BitVecVal(MIN + 1 + j, 32), BV(BitVec('entry%d' % j, 32), True)) for j in range(D)]
            in_dict = [Or([c == BitVecVal(MIN, 32)] + [c == e for e, _ in entries]) for c in codes]
            _DICT['read_codes'] = codes
            it = Struct('DictBlockIterator', [Opaque('rle-iter'), Opaque('dict', {'entries': entries}), Opaque('phantom')])
            out_b = Ref(Cell(Struct('PrimitiveArrayBuilder', [Bits([]), Seq([])])))
            try:
                outs = vm.run(f_next, [Ref(Cell(it)), Enum('Option', 'None'), out_b], pc=tuple(in_dict))
            except (Unsupported, MirSyntax, KeyError, IndexError, AttributeError, TypeError) as ex:
                rep.fail_inconclusive('%s: %s: %s' % (desc, type(ex).__name__, str(ex)[:300]))
                continue
            rep.cov['programs'] += 1
            for o in outs:
                n_ob += 1
                if o.kind != 'ret':
                    stv, m = satisfiable(list(o.pc))
                    if stv == 'unsat':
                        rep.obligation(True)
                        continue
                    out = rep.counterexample('dict-iterator:panics', '%s panics (%s)' % (desc, o.value), {'desc': desc}, None)
                    rep.obligation(out == 'known')
                    continue
                bld = vm.deref_value(o.args[2])
                gv, gd = vm.deref_value(bld.fields[0]), vm.deref_value(bld.fields[1])
                if concrete_int(o.value) != K or len(gv.bits) != K:
                    claim = BoolVal(False)
                else:
                    cl = []
                    for i, c in enumerate(codes):
                        is_null = c == BitVecVal(MIN, 32)
                        val = vm.deref_value(gd.items[i]).v
                        cl.append(And(bool_(gv.bits[i]) == Not(is_null), Or(is_null, Or([And(c == e, val == x.v) for e, x in entries]))))
                    claim = And(cl)
                stv, m = check(list(o.pc), claim)
                if stv == 'unsat':
                    rep.obligation(True)
                    rep.sample({'obligation': desc, 'verdict': 'every code decodes to NULL (i32::MIN) or its dictionary entry'}, cap=3)
                    continue
                if stv == 'unknown':
                    rep.obligation(False)
                    rep.fail_inconclusive('solver unknown: ' + desc)
                    continue
                w = {'codes': [m.eval(c, model_completion=True).as_signed_long() - MIN for c in codes], 'dictionary_size': D}
                # replay: a value sequence whose dictionary codes are the witness codes (0 = NULL, j = j-th distinct value)
                seq = [None if c == 0 else c for c in w['codes']]
                first_seen = []
                for c in seq:
                    if c is not None and c not in first_seen:
                        first_seen.append(c)
                rp = replay_dict_builder({'values': [None if c is None else 100 + c for c in sorted(first_seen)] + [None if c is None else 100 + c for c in seq]})
                what = '%s: codes (offset from i32::MIN) %s are not decoded to NULL / their entries; end to end: %s' % (desc, w['codes'], json.dumps(rp['how'])[:200])
                out = rep.counterexample('dict-iterator:decode', what[:500], {'witness': w, 'replay': rp}, rp['reproduced'])
                rep.obligation(out == 'known')
    rep.solver(time.time() - t0, n_ob)
    rep.cov['functions_encoded'] = list(rep.cov.get('functions_encoded', [])) + ['DictBlockIterator::next_batch (from MIR)']
    if isinstance(rep.cov.get('bounds'), dict):
        rep.cov['bounds']['dictionary block iterator'] = 'batches of 1-%d codes over dictionaries of 1-%d entries; codes symbolic within the dictionary or NULL' % ((3, 3) if thorough else (2, 2))
