"""Parser for rustc's `-Zunpretty=mir` text, as dumped from /repo on every run.

Only the shapes that occur in the functions engine M interprets are understood; anything else raises MirSyntax, which
makes the obligation inconclusive (never silently skipped)."""
import os, re, subprocess, time, hashlib
from vlib.common import REPO, TARGET, REPO_TOOLCHAIN, GUARD_FLAGS, Inconclusive, log


class MirSyntax(Exception):
    pass


def dump_mir(overflow_checks=True):
    """Dump MIR of the library crate from /repo's current working tree (repo toolchain). ~30 s."""
    d = os.path.join(TARGET, 'mir-' + ('oc' if overflow_checks else 'nooc'))
    os.makedirs(d, exist_ok=True)
    out = os.path.join(d, 'rl.mir')
    # like cargo, skip the work when no input changed: fingerprint = content hash of every source file + manifests
    h = hashlib.sha1()
    files = [os.path.join(REPO, 'Cargo.toml'), os.path.join(REPO, 'Cargo.lock'), os.path.join(REPO, 'build.rs'), os.path.join(REPO, 'rust-toolchain')]
    for root, _, names in os.walk(os.path.join(REPO, 'src')):
        files += [os.path.join(root, n) for n in names]
    for root, _, names in os.walk(os.path.join(REPO, 'proto')):
        files += [os.path.join(root, n) for n in names if not root.endswith('target')]
    for f in sorted(files):
        if os.path.isfile(f):
            h.update(f.encode())
            h.update(open(f, 'rb').read())
    fp = h.hexdigest()
    fpfile = out + '.fingerprint'
    if os.path.exists(out) and os.path.exists(fpfile) and open(fpfile).read() == fp and os.path.getsize(out) > 1000:
        log('MIR dump is up to date with the source tree (fingerprint %s)' % fp[:10])
        return out
    env = dict(os.environ)
    env.update(RUSTUP_TOOLCHAIN=REPO_TOOLCHAIN, CARGO_NET_OFFLINE='true', RUSTFLAGS=GUARD_FLAGS)
    # the unpretty pass prints nothing when cargo considers the crate fresh: force a rebuild of the lib only
    os.utime(os.path.join(REPO, 'src', 'lib.rs'))
    t0 = time.time()
    with open(out, 'w') as f:
        p = subprocess.run(['cargo', 'rustc', '--lib', '--no-default-features', '--target-dir', d, '--crate-type', 'rlib', '--',
                            '-Zunpretty=mir', '-C', 'overflow-checks=' + ('on' if overflow_checks else 'off'), '-C', 'debug-assertions=off'],
                           cwd=REPO, env=env, stdout=f, stderr=subprocess.PIPE, text=True)
    if p.returncode != 0 or os.path.getsize(out) < 1000:
        log(p.stderr[-3000:])
        raise Inconclusive('MIR dump failed')
    log('MIR dumped in %.1fs (%d bytes)' % (time.time() - t0, os.path.getsize(out)))
    open(fpfile, 'w').write(fp)
    return out


# ------------------------------------------------------------------------------------------------ text utilities
def split_top(s, sep=','):
    """Split on sep at nesting depth 0 of () [] {} <> (angle brackets only when they look like generics)."""
    out, depth, cur, i, n = [], 0, '', 0, len(s)
    while i < n:
        c = s[i]
        if c == '"':
            j = i + 1
            while j < n and s[j] != '"':
                j += 2 if s[j] == '\\' else 1
            cur += s[i:j + 1]
            i = j + 1
            continue
        if c in '([{':
            depth += 1
        elif c in ')]}':
            depth -= 1
        elif c == '<' and (i + 1 < n and s[i + 1] not in ' ='):
            depth += 1
        elif c == '>' and i > 0 and s[i - 1] not in '-=' and depth > 0:
            # `->` and `=>` are not closers
            depth -= 1
        if c == sep and depth == 0:
            out.append(cur.strip())
            cur = ''
        else:
            cur += c
        i += 1
    if cur.strip():
        out.append(cur.strip())
    return out


def match_paren(s, i):
    """s[i] is an opening bracket; index of its match."""
    op = s[i]
    cl = {'(': ')', '[': ']', '{': '}', '<': '>'}[op]
    depth, n = 0, len(s)
    j = i
    while j < n:
        c = s[j]
        if c == '"':
            j += 1
            while j < n and s[j] != '"':
                j += 2 if s[j] == '\\' else 1
        elif c == op:
            depth += 1
        elif c == cl and not (cl == '>' and s[j - 1] in '-='):
            depth -= 1
            if depth == 0:
                return j
        j += 1
    raise MirSyntax('unbalanced: ' + s[i:i + 60])


class Func:
    def __init__(self, name, header, params, ret, body_lines):
        self.name, self.header, self.params, self.ret = name, header, params, ret
        self.locals = {}
        self.blocks = {}
        self._parse(body_lines)

    def _parse(self, lines):
        cur = None
        for ln in lines:
            s = ln.strip()
            m = re.match(r'let (?:mut )?(_\d+): (.*);$', s)
            if m:
                self.locals[m.group(1)] = m.group(2)
                continue
            m = re.match(r'(bb\d+)(?: \(cleanup\))?: \{$', s)
            if m:
                cur = m.group(1)
                self.blocks[cur] = []
                continue
            if s == '}' or not s or s.startswith(('debug ', 'scope ', '//')):
                if s == '}' and cur is not None and ln.startswith('    }'):
                    cur = None
                continue
            if cur is not None:
                self.blocks[cur].append(s.rstrip(';') if not s.endswith('];') or '->' not in s else s.rstrip(';'))


class Program:
    def __init__(self, path):
        self.path = path
        self.text = open(path).read()
        self.funcs = {}
        self.by_tail = {}
        self._index()

    def _index(self):
        for m in re.finditer(r'^fn (.+?) \{$', self.text, re.M):
            hdr = m.group(1)
            # name = up to the parameter list's opening paren (the last top-level '(' before ' -> ' or end)
            pi = self._param_start(hdr)
            name = hdr[:pi]
            self.funcs.setdefault(name, []).append(m.start())
        for name in self.funcs:
            tail = name.split('::')[-1]
            self.by_tail.setdefault(tail, []).append(name)
        # promoted constants of functions: `const <fn path>::promoted[k]: <type> = {` with an ordinary body
        self.consts = {}
        for m in re.finditer(r'^const ((?:.+?::)?(?:promoted\[\d+\]|[A-Z][A-Z0-9_]*)): (.+?) = \{$', self.text, re.M):
            self.consts.setdefault(m.group(1), []).append(m.start())

    @staticmethod
    def _param_start(hdr):
        depth = 0
        for i, c in enumerate(hdr):
            if c == '<' and hdr[i + 1:i + 2] not in (' ', '='):
                depth += 1
            elif c == '>' and depth > 0 and hdr[i - 1] not in '-=':
                depth -= 1
            elif c == '{':
                depth += 1
            elif c == '}':
                depth -= 1
            elif c == '(' and depth == 0:
                return i
        raise MirSyntax('no parameter list in ' + hdr[:80])

    def get(self, name, which=0):
        if '@@' in name:
            name, w = name.rsplit('@@', 1)
            which = int(w)
        if name not in self.funcs:
            raise KeyError(name)
        start = self.funcs[name][which]
        end = self.text.index('\n}\n', start)
        block = self.text[start:end + 2]
        lines = block.split('\n')
        hdr = lines[0][3:-2]
        pi = self._param_start(hdr)
        pe = match_paren(hdr, pi)
        params = []
        for p in split_top(hdr[pi + 1:pe]):
            pm = re.match(r'(?:mut )?(_\d+): (.*)$', p)
            if pm:
                params.append((pm.group(1), pm.group(2)))
        ret = hdr[pe + 1:].strip()
        ret = ret[2:].strip() if ret.startswith('->') else '()'
        return Func(name, hdr, params, ret, lines[1:])

    def get_const(self, name, which=0):
        start = self.consts[name][which]
        end = self.text.index('\n}\n', start)
        lines = self.text[start:end + 2].split('\n')
        m = re.match(r'const (.+?): (.+?) = \{$', lines[0])
        return Func(name, lines[0], [], m.group(2), lines[1:])

    @staticmethod
    def norm_type(t):
        """Type text without module paths."""
        return re.sub(r'\b(?:[a-z_][a-z0-9_]*::)+', '', t).replace(' ', '')

    def by_signature(self, tail, first_param=None, ret=None):
        """Functions `...::tail` (all macro instances) whose first parameter / return type match (paths ignored)."""
        out = []
        for name in self.by_tail.get(tail, []):
            for k, start in enumerate(self.funcs[name]):
                hdr = self.text[start:self.text.index(' {\n', start)][3:]
                pi = self._param_start(hdr)
                pe = match_paren(hdr, pi)
                params = split_top(hdr[pi + 1:pe])
                r = hdr[pe + 1:].strip()
                r = r[2:].strip() if r.startswith('->') else '()'
                p0 = params[0].split(': ', 1)[1] if params else ''
                if first_param is not None and self.norm_type(p0) != self.norm_type(first_param):
                    continue
                if ret is not None and self.norm_type(r) != self.norm_type(ret):
                    continue
                out.append(name if k == 0 else '%s@@%d' % (name, k))
        return out

    def find(self, pattern):
        """Function names matching a regex."""
        r = re.compile(pattern)
        return [n for n in self.funcs if r.search(n)]

    def impl_info(self, name):
        """(trait or None, self type text) of the impl block a function lives in, read from the source line."""
        m = re.search(r'<impl at (src/[^:]+):(\d+):\d+: \d+:\d+>', name)
        if not m:
            return None
        try:
            line = open(os.path.join(REPO, m.group(1))).read().split('\n')[int(m.group(2)) - 1]
        except (OSError, IndexError):
            return None
        im = re.match(r'\s*(?:unsafe )?impl(?:<[^>]*(?:<[^>]*>[^>]*)*>)?\s+(?:(.+?)\s+for\s+)?(.+?)\s*(?:where.*)?\{?\s*$', line)
        if not im:
            return (None, line.strip())
        return (im.group(1), im.group(2).strip())
