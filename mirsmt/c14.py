"""C14 Vectorised expression evaluation equals scalar SQL semantics (engine M over the MIR of src/array/ops.rs)."""
import itertools, json, multiprocessing as mp, os, re, time
from z3 import (is_fp, And, Or, Not, If, BoolVal, BitVecVal, SignExt, ZeroExt, Extract, SRem, is_true, is_false, simplify, BitVec, Bool)
from vlib.common import Report, Inconclusive, rl, log
from . import engine
from .engine import make_vm, check, satisfiable, result_kind, find_fn
from .vm import Ref, Cell, Enum, BV, Unsupported, Struct
from .mir import MirSyntax
from .arrays import sym_array, unpack_array
from .natives import NATIVE_DOC, CRATE_CONTRACTS

W = {'Int16': 16, 'Int32': 32, 'Int64': 64, 'Date': 32, 'Float64': 64}
INTS = ['Int16', 'Int32', 'Int64']
SQLT = {'Bool': 'BOOLEAN', 'Int16': 'SMALLINT', 'Int32': 'INT', 'Int64': 'BIGINT', 'Date': 'DATE', 'Float64': 'DOUBLE'}
OPS_IMPL = r'^array::ops::<impl at src/array/ops\.rs:\d+:\d+: \d+:\d+>::%s$'


def kernel_fn(prog, tail):
    """The ArrayImpl method of that name (ops.rs also has BitVecExt::and / or)."""
    c = [n for n in prog.find(OPS_IMPL % tail) if '_1: &array::ArrayImpl' in prog.get(n).header]
    if len(c) != 1:
        raise Inconclusive('expected one ArrayImpl::%s in the MIR, found %d' % (tail, len(c)))
    return c[0]


# ------------------------------------------------------------------------------------------------ scalar SQL reference
def sx(x, w, to):
    return SignExt(to - w, x) if to > w else x


def spec_logic(k, rows):
    (ra, va) = rows[0]
    if k == 'not':
        return Not(va), BoolVal(False), Not(ra)
    (rb, vb) = rows[1]
    at, af, bt, bf = And(va, ra), And(va, Not(ra)), And(vb, rb), And(vb, Not(rb))
    if k == 'and':
        return Not(Or(af, bf, And(at, bt))), BoolVal(False), And(at, bt)
    return Not(Or(at, bt, And(af, bf))), BoolVal(False), Or(at, bt)


def spec_cmp(k, ta, tb, rows):
    (ra, va), (rb, vb) = rows
    null = Or(Not(va), Not(vb))
    if ta == 'Bool':
        a, b = If(ra, BitVecVal(1, 2), BitVecVal(0, 2)), If(rb, BitVecVal(1, 2), BitVecVal(0, 2))
    else:
        w = max(W[ta], W[tb])
        a, b = sx(ra, W[ta], w), sx(rb, W[tb], w)
    v = {'eq': a == b, 'ne': a != b, 'gt': a > b, 'lt': a < b, 'ge': a >= b, 'le': a <= b}[k]
    return null, BoolVal(False), v


def spec_arith(k, ta, tb, rows):
    """(null, err, value, soft) -- soft: a condition under which either NULL or an error is acceptable (x % 0).
    Mathematical result over the integers, expressed with the solver's own overflow predicates / wide arithmetic."""
    from z3 import BVMulNoOverflow, BVMulNoUnderflow
    (ra, va), (rb, vb) = rows
    w = max(W[ta], W[tb])
    a, b = sx(ra, W[ta], w), sx(rb, W[tb], w)
    null = Or(Not(va), Not(vb))
    soft = BoolVal(False)
    minw = BitVecVal(1 << (w - 1), w)
    if k in ('add', 'sub'):
        A, B = sx(a, w, w + 1), sx(b, w, w + 1)
        r = A + B if k == 'add' else A - B
        fits = r == sx(Extract(w - 1, 0, r), w, w + 1)
        val = Extract(w - 1, 0, r)
    elif k == 'mul':
        fits = And(BVMulNoOverflow(a, b, True), BVMulNoUnderflow(a, b))
        val = a * b
    elif k == 'div':
        null = Or(null, b == 0)
        fits = Not(And(a == minw, b == BitVecVal(-1, w)))
        val = a / If(b == 0, BitVecVal(1, w), b)
    elif k == 'rem':
        soft = And(va, vb, b == 0)
        fits = BoolVal(True)          # MIN % -1 is 0 mathematically
        val = If(b == BitVecVal(-1, w), BitVecVal(0, w), SRem(a, If(b == 0, BitVecVal(1, w), b)))
    return null, And(Not(null), Not(fits), Not(soft)), val, soft


def spec_neg(t, rows):
    (ra, va), = rows
    w = W[t]
    r = -sx(ra, w, w + 1)
    fits = r == sx(Extract(w - 1, 0, r), w, w + 1)
    return Not(va), And(va, Not(fits)), Extract(w - 1, 0, r)


def spec_select(t, rows):
    (rc, vc), (ra, va), (rb, vb) = rows
    take = And(vc, rc)
    return If(take, Not(va), Not(vb)), BoolVal(False), If(take, ra, rb)


def spec_cast(tf, tt, rows):
    (ra, va), = rows
    null = Not(va)
    if tf == tt:
        return null, BoolVal(False), ra
    if tf == 'Bool':
        return null, BoolVal(False), If(ra, BitVecVal(1, W[tt]), BitVecVal(0, W[tt]))
    if tt == 'Bool':
        return null, BoolVal(False), ra != 0
    wf, wt = W[tf], W[tt]
    if wt >= wf:
        return null, BoolVal(False), sx(ra, wf, wt)
    lo = Extract(wt - 1, 0, ra)
    return null, And(va, sx(lo, wt, wf) != ra), lo


# ---- DOUBLE operands.  A raw slot is 64 bits read as an IEEE double; an integer operand is converted exactly as SQL's
# implicit numeric promotion does (round to nearest even).  Reference: IEEE 754 results (no error: overflow gives
# +-inf), division by +0 / -0 is NULL, comparisons follow the total order every other part of the engine uses for DOUBLE
# (ORDER BY, GROUP BY, join keys, MIN / MAX -- property C19): NaN = NaN, NaN greater than everything, -0 = +0.
def fv(t, raw):
    from z3 import fpBVToFP, fpSignedToFP, Float64, RNE
    return fpBVToFP(raw, Float64()) if t == 'Float64' else fpSignedToFP(RNE(), raw, Float64())


def spec_farith(k, ta, tb, rows):
    from z3 import fpAdd, fpSub, fpMul, fpDiv, fpIsZero, RNE, FPVal, Float64
    (ra, va), (rb, vb) = rows
    null = Or(Not(va), Not(vb))
    fa = fv(ta, ra)
    if k == 'div':
        zero = fpIsZero(fv(tb, rb)) if tb == 'Float64' else rb == 0
        null = Or(null, zero)
        # the divisor of a NULL row is irrelevant; written as the engine writes it so that equal terms are recognised
        fb = If(zero, FPVal(1.0, Float64()), fv(tb, rb)) if tb == 'Float64' else fv(tb, If(zero, BitVecVal(1, W[tb]), rb))
        return null, BoolVal(False), fpDiv(RNE(), fa, fb), BoolVal(False)
    fb = fv(tb, rb)
    return null, BoolVal(False), {'add': fpAdd, 'sub': fpSub, 'mul': fpMul}[k](RNE(), fa, fb), BoolVal(False)


def spec_fcmp(k, ta, tb, rows):
    from z3 import fpIsNaN, fpEQ, fpLT
    (ra, va), (rb, vb) = rows
    a, b = fv(ta, ra), fv(tb, rb)
    eq = Or(And(fpIsNaN(a), fpIsNaN(b)), fpEQ(a, b))
    lt = Or(And(Not(fpIsNaN(a)), fpIsNaN(b)), fpLT(a, b))
    gt = Or(And(Not(fpIsNaN(b)), fpIsNaN(a)), fpLT(b, a))
    v = {'eq': eq, 'ne': Not(eq), 'lt': lt, 'gt': gt, 'le': Or(lt, eq), 'ge': Or(gt, eq)}[k]
    return Or(Not(va), Not(vb)), BoolVal(False), v, BoolVal(False)


def spec_fneg(rows):
    from z3 import fpNeg
    (ra, va), = rows
    return Not(va), BoolVal(False), fpNeg(fv('Float64', ra)), BoolVal(False)


def spec_fselect(rows):
    (rc, vc), (ra, va), (rb, vb) = rows
    take = And(vc, rc)
    return If(take, Not(va), Not(vb)), BoolVal(False), If(take, fv('Float64', ra), fv('Float64', rb)), BoolVal(False)


def spec_fcast(tf, tt, rows):
    from z3 import fpIsZero, FPVal, Float64
    (ra, va), = rows
    if tt == 'Float64':
        val = fv(tf, ra) if tf != 'Bool' else If(ra, FPVal(1.0, Float64()), FPVal(0.0, Float64()))
    else:     # DOUBLE -> BOOLEAN: non-zero (NaN included) is true
        val = Not(fpIsZero(fv('Float64', ra)))
    return Not(va), BoolVal(False), val, BoolVal(False)


def float_arms():
    out = []
    F = 'Float64'
    pairs = [(F, F)] + [(t, F) for t in INTS] + [(F, t) for t in INTS]
    cmps = {'eq': '=', 'ne': '<>', 'gt': '>', 'lt': '<', 'ge': '>=', 'le': '<='}
    for k, sym in cmps.items():
        for ta, tb in pairs:
            out.append((k, k, (ta, tb), lambda rows, k=k, ta=ta, tb=tb: spec_fcmp(k, ta, tb, rows), lambda a, b, sym=sym: [sym, a, b]))
    for k, sym in {'add': '+', 'sub': '-', 'mul': '*', 'div': '/'}.items():
        for ta, tb in pairs:
            out.append((k, k, (ta, tb), lambda rows, k=k, ta=ta, tb=tb: spec_farith(k, ta, tb, rows), lambda a, b, sym=sym: [sym, a, b]))
    out.append(('neg', 'neg', (F,), spec_fneg, lambda a: ['-', a]))
    out.append(('select', 'select', ('Bool', F, F), spec_fselect, lambda c, a, b: ['if', c, a, b]))
    for tf in ['Bool'] + INTS:
        out.append(('cast', 'cast', (tf, 'to:' + F), lambda rows, tf=tf: spec_fcast(tf, F, rows), lambda a: ['cast', 'DOUBLE', a]))
    out.append(('cast', 'cast', (F, 'to:Bool'), lambda rows: spec_fcast(F, 'Bool', rows), lambda a: ['cast', 'BOOLEAN', a]))
    return out


# ------------------------------------------------------------------------------------------------ obligations
def arms(thorough):
    """(kernel, fn tail, operand variants, spec, replay expression builder)"""
    out = []
    for k in ('and', 'or'):
        out.append((k, k, ('Bool', 'Bool'), lambda rows, k=k: spec_logic(k, rows) + (BoolVal(False),), lambda a, b, k=k: [k, a, b]))
    out.append(('not', 'not', ('Bool',), lambda rows: spec_logic('not', rows) + (BoolVal(False),), lambda a: ['not', a]))
    cmps = {'eq': '=', 'ne': '<>', 'gt': '>', 'lt': '<', 'ge': '>=', 'le': '<='}
    for k, sym in cmps.items():
        pairs = [('Bool', 'Bool'), ('Date', 'Date')] + list(itertools.product(INTS, INTS))
        for ta, tb in pairs:
            out.append((k, k, (ta, tb), lambda rows, k=k, ta=ta, tb=tb: spec_cmp(k, ta, tb, rows) + (BoolVal(False),), lambda a, b, sym=sym: [sym, a, b]))
    ar = {'add': '+', 'sub': '-', 'mul': '*', 'div': '/', 'rem': '%'}
    for k, sym in ar.items():
        for ta, tb in itertools.product(INTS, INTS):
            out.append((k, k, (ta, tb), lambda rows, k=k, ta=ta, tb=tb: spec_arith(k, ta, tb, rows), lambda a, b, sym=sym: [sym, a, b]))
    for t in ('Int32', 'Int64'):
        out.append(('neg', 'neg', (t,), lambda rows, t=t: spec_neg(t, rows) + (BoolVal(False),), lambda a: ['-', a]))
    for t in INTS:
        out.append(('select', 'select', ('Bool', t, t), lambda rows, t=t: spec_select(t, rows) + (BoolVal(False),), lambda c, a, b: ['if', c, a, b]))
    for tf, tt in itertools.product(['Bool'] + INTS, ['Bool'] + INTS):
        out.append(('cast', 'cast', (tf, 'to:' + tt), lambda rows, tf=tf, tt=tt: spec_cast(tf, tt, rows) + (BoolVal(False),), lambda a, tt=tt: ['cast', SQLT[tt], a]))
    return out + float_arms()


def bits_to_float(u):
    import struct
    return struct.unpack('<d', struct.pack('<Q', u & ((1 << 64) - 1)))[0]


def float_text(x):
    import math
    if math.isnan(x):
        return 'NaN'
    if math.isinf(x):
        return 'inf' if x > 0 else '-inf'
    return repr(x)


def fp_text(model, val):
    """A Float64 term under a model, as text ('NaN', 'inf', '-inf', '-0.0', '1.5e300' ...)."""
    from z3 import fpToIEEEBV, fpIsNaN
    if is_true(model.eval(fpIsNaN(val), model_completion=True)):
        return 'f64:NaN'
    u = model.eval(fpToIEEEBV(val), model_completion=True).as_long()
    return 'f64:' + float_text(bits_to_float(u))


def run_arm(task):
    """Worker: interpret one kernel arm from MIR and decide its obligations. Returns a plain dict."""
    kname, tail, tys, n, oc, mirpath = task
    os.environ['VERIF_MIR_%s' % ('OC' if oc else 'NOOC')] = mirpath
    arm = [a for a in arms(True) if a[0] == kname and a[2] == tys][0]
    spec_fn, expr_fn = arm[3], arm[4]
    res = {'kernel': kname, 'arm': 'x'.join(tys), 'n': n, 'profile': 'dev' if oc else 'release', 'obligations': [], 'fns': [], 'solver_s': 0.0}
    t0 = time.time()
    try:
        vm = make_vm(oc)
        fname = kernel_fn(vm.prog, tail)
        arrs, rows = [], []
        for i, t in enumerate(tys):
            if t.startswith('to:'):
                continue
            a, r = sym_array('abc'[i], t, n)
            arrs.append(a)
            rows.append(r)
        args = [Ref(Cell(a)) for a in arrs]
        if kname == 'cast':
            args.append(Ref(Cell(Enum('DataType', tys[1][3:]))))
        outs = vm.run(fname, args)
        res['fns'] = sorted(vm.trace_fns)
        res['natives'] = sorted(vm.used_natives)
    except (Unsupported, MirSyntax, KeyError, Inconclusive) as ex:
        res['inconclusive'] = '%s: %s' % (type(ex).__name__, str(ex)[:300])
        return res
    # per-row reference
    specs = [spec_fn([r[i] for r in rows]) for i in range(n)]
    err_any = Or([s[1] for s in specs])
    soft_any = Or([s[3] for s in specs])
    out_ty = None
    obl = res['obligations']

    def add(kind, verdict, model=None, row=None):
        o = {'kind': kind, 'verdict': verdict}
        if model is not None:
            w = {}
            for i, t in enumerate([t for t in tys if not t.startswith('to:')]):
                for j, (raw, valid) in enumerate(rows[i]):
                    rv = model.eval(raw, model_completion=True)
                    vv = is_true(model.eval(valid, model_completion=True))
                    if t == 'Bool':
                        w['%s%d' % ('abc'[i], j)] = {'raw': bool(is_true(rv)), 'valid': vv}
                    else:
                        x = rv.as_long()
                        if x >= 1 << (W[t] - 1):
                            x -= 1 << W[t]
                        w['%s%d' % ('abc'[i], j)] = {'raw': x, 'valid': vv}
            o['witness'] = w
            exp = []
            for s in specs:
                nul, er, val, soft = s
                if is_true(model.eval(er, model_completion=True)):
                    exp.append('ERROR')
                elif is_true(model.eval(soft, model_completion=True)):
                    exp.append('NULL-or-ERROR')
                elif is_true(model.eval(nul, model_completion=True)):
                    exp.append(None)
                else:
                    v = model.eval(val, model_completion=True)
                    if is_true(v) or is_false(v):
                        exp.append(bool(is_true(v)))
                    elif is_fp(v):
                        exp.append(fp_text(model, val))
                    else:
                        x, wd = v.as_long(), v.size()
                        exp.append(x - (1 << wd) if x >= 1 << (wd - 1) else x)
            o['expected'] = exp
        obl.append(o)

    for o in outs:
        kind = result_kind(o)
        pc = list(o.pc)
        if kind == 'ok':
            try:
                variant, orows = unpack_array(vm, o.value.fields[0])
            except Exception as ex:
                res['inconclusive'] = 'cannot unpack result: %r' % ex
                return res
            res.setdefault('out_variants', [])
            if variant not in res['out_variants']:
                res['out_variants'].append(variant)
            for i in range(n):
                nul, er, val, soft = specs[i]
                oraw, ovalid = orows[i]
                v, m = check(pc + [Not(err_any), Not(soft_any)], ovalid == Not(nul))
                add('validity', v, m)
                if hasattr(oraw, 'sort') and str(oraw.sort()) != str(val.sort()):
                    add('value', 'sat')
                    obl[-1]['note'] = 'result sort %s, expected %s' % (oraw.sort(), val.sort())
                else:
                    v, m = check(pc + [Not(err_any), Not(soft_any), Not(nul)], oraw == val)
                    add('value', v, m)
            v, m = satisfiable(pc + [err_any])
            add('overflow-wraps' if kname != 'cast' else 'lossy-cast-returns-value', 'unsat' if v == 'unsat' else v, m)
            # soft zone (x % 0): a value must not come back non-NULL
            v, m = satisfiable(pc + [Or([And(specs[i][3], orows[i][1]) for i in range(n)])])
            add('zero-modulus-returns-value', 'unsat' if v == 'unsat' else v, m)
        elif kind == 'err':
            v, m = satisfiable(pc + [Not(err_any), Not(soft_any)])
            add('spurious-error', 'unsat' if v == 'unsat' else v, m)
        else:
            v, m = satisfiable(pc + [err_any])
            add('error-as-panic', 'unsat' if v == 'unsat' else v, m)
            v, m = satisfiable(pc + [Not(err_any), soft_any])
            add('zero-modulus-panics', 'unsat' if v == 'unsat' else v, m)
            v, m = satisfiable(pc + [Not(err_any), Not(soft_any)])
            add('spurious-panic', 'unsat' if v == 'unsat' else v, m)
    res['solver_s'] = time.time() - t0
    return res


# ------------------------------------------------------------------------------------------------ replay on the real engine
def replay(kname, tys, witness, expected, expr_fn, release=False):
    """Evaluate the kernel on the witness through the real executor (no optimizer): a table holds, per operand, the raw
    value and a NULL-or-0 flag column; `raw + flag` rebuilds an operand that is NULL with the given raw slot content."""
    ops = [t for t in tys if not t.startswith('to:')]
    n = len([k for k in witness if k.startswith('a')])
    cols, exprs = [], []
    ci = 0
    if 'Date' in ops:
        return replay_dates(kname, ops, witness, expected, expr_fn, release)
    if 'Float64' in ops or any(t == 'to:Float64' for t in tys):
        return replay_floats(kname, ops, witness, expected, expr_fn, release)
    for i, t in enumerate(ops):
        ty = 'INT' if t == 'Bool' else SQLT[t]
        cols += ['%s_raw %s' % ('abc'[i], ty), '%s_nul %s' % ('abc'[i], ty)]
        e = ['+', '$0.%d' % ci, '$0.%d' % (ci + 1)]
        if t == 'Bool':
            e = ['cast', 'BOOLEAN', e]
        exprs.append(e)
        ci += 2
    setup = ['create table r(%s)' % ', '.join(cols)]
    for j in range(n):
        vals = []
        for i, t in enumerate(ops):
            w = witness['%s%d' % ('abc'[i], j)]
            raw = (1 if w['raw'] else 0) if t == 'Bool' else w['raw']
            vals += [str(raw), '0' if w['valid'] else 'NULL']
        setup.append('insert into r values (%s)' % ', '.join(vals))
    from relsmt.sexp import show
    plan = show(['proj', ['list', expr_fn(*exprs)], ['scan', '$0', ['list'] + ['$0.%d' % k for k in range(ci)], 'true']])
    out, rc, err = rl('planrun', {'setup': setup, 'plans': [plan]}, release=release)
    res = [o for o in out if 'plan' in o]
    how = {'setup': setup, 'plan': plan, 'driver_profile': 'release' if release else 'dev'}
    if not res:
        return {'reproduced': None, 'how': how, 'note': 'replay did not run: ' + err[-200:]}
    o = res[0]
    if o.get('panicked'):
        got = 'PANIC'
    elif not o.get('ok'):
        got = 'ERROR'
    else:
        got = [r[0] for r in o['rows']]
    how['engine'] = got
    how['expected'] = expected

    def norm(x):
        if x is None or isinstance(x, str) and x in ('ERROR', 'NULL-or-ERROR'):
            return x
        if isinstance(x, bool):
            return 'true' if x else 'false'
        return str(x)
    if got in ('PANIC', 'ERROR'):
        if any(e == 'ERROR' for e in expected):
            rep = got == 'PANIC'          # an error was due: a clean error is right, a panic is the finding
        elif any(e == 'NULL-or-ERROR' for e in expected):
            rep = got == 'PANIC'
        else:
            rep = True
    else:
        rep = False
        for g, e in zip(got, expected):
            if e == 'ERROR':
                rep = True
            elif e == 'NULL-or-ERROR':
                rep = rep or g is not None
            elif norm(e) != g:
                rep = True
    return {'reproduced': rep, 'how': how}


def replay_floats(kname, ops, witness, expected, expr_fn, release):
    """DOUBLE operands: the table holds the doubles themselves (cast from their shortest text, 'NaN', 'inf'); NULL rows are
    NULL (the raw slot under a NULL cannot be set from SQL).  Integer operands keep the raw + NULL-or-0 construction."""
    import math
    n = len([k for k in witness if k.startswith('a')])
    cols, exprs, ci = [], [], 0
    for i, t in enumerate(ops):
        if t == 'Float64':
            cols.append('%s_v double' % 'abc'[i])
            exprs.append('$0.%d' % ci)
            ci += 1
        else:
            ty = 'INT' if t == 'Bool' else SQLT[t]
            cols += ['%s_raw %s' % ('abc'[i], ty), '%s_nul %s' % ('abc'[i], ty)]
            e = ['+', '$0.%d' % ci, '$0.%d' % (ci + 1)]
            exprs.append(['cast', 'BOOLEAN', e] if t == 'Bool' else e)
            ci += 2
    setup = ['create table r(%s)' % ', '.join(cols)]
    for j in range(n):
        vals = []
        for i, t in enumerate(ops):
            w = witness['%s%d' % ('abc'[i], j)]
            if t == 'Float64':
                vals.append("cast('%s' as double)" % float_text(bits_to_float(w['raw'])) if w['valid'] else 'NULL')
            else:
                raw = (1 if w['raw'] else 0) if t == 'Bool' else w['raw']
                vals += [str(raw), '0' if w['valid'] else 'NULL']
        setup.append('insert into r values (%s)' % ', '.join(vals))
    from relsmt.sexp import show
    plan = show(['proj', ['list', expr_fn(*exprs)], ['scan', '$0', ['list'] + ['$0.%d' % k for k in range(ci)], 'true']])
    out, rc, err = rl('planrun', {'setup': setup, 'plans': [plan]}, release=release)
    res = [o for o in out if 'plan' in o]
    how = {'setup': setup, 'plan': plan, 'driver_profile': 'release' if release else 'dev'}
    if not res:
        return {'reproduced': None, 'how': how, 'note': 'replay did not run: ' + err[-200:]}
    o = res[0]
    got = 'PANIC' if o.get('panicked') else ('ERROR' if not o.get('ok') else [r[0] for r in o['rows']])
    how['engine'], how['expected'] = got, expected
    if isinstance(got, str):
        return {'reproduced': True, 'how': how}          # no DOUBLE arm has an erroneous input

    def same(g, e):
        if e is None or g is None:
            return e is None and g is None
        if isinstance(e, bool):
            return g == ('true' if e else 'false')
        if isinstance(e, str) and e.startswith('f64:'):
            try:
                x, y = float(g), float(e[4:])
            except ValueError:
                return False
            if math.isnan(x) or math.isnan(y):
                return math.isnan(x) and math.isnan(y)
            return x == y and math.copysign(1, x) == math.copysign(1, y)
        return str(e) == g
    return {'reproduced': any(not same(g, e) for g, e in zip(got, expected)) or len(got) != len(expected), 'how': how}


def replay_dates(kname, ops, witness, expected, expr_fn, release):
    """DATE operands: the table holds date literals (NULL rows as NULL; the raw slot under a NULL cannot be set from SQL)."""
    import datetime
    n = len([k for k in witness if k.startswith('a')])
    setup = ['create table r(%s)' % ', '.join('%s date' % 'abc'[i] for i in range(len(ops)))]
    for j in range(n):
        vals = []
        for i in range(len(ops)):
            w = witness['%s%d' % ('abc'[i], j)]
            if not w['valid']:
                vals.append('NULL')
                continue
            d = w['raw'] + 719163      # days since 1970-01-01 -> proleptic ordinal
            if not (1 <= d <= 3652059):
                return {'reproduced': None, 'how': {'note': 'date outside years 1..9999: no literal'}}
            vals.append("date '%s'" % datetime.date.fromordinal(d).isoformat())
        setup.append('insert into r values (%s)' % ', '.join(vals))
    from relsmt.sexp import show
    plan = show(['proj', ['list', expr_fn(*['$0.%d' % i for i in range(len(ops))])], ['scan', '$0', ['list'] + ['$0.%d' % i for i in range(len(ops))], 'true']])
    out, rc, err = rl('planrun', {'setup': setup, 'plans': [plan]}, release=release)
    res = [o for o in out if 'plan' in o]
    how = {'setup': setup, 'plan': plan}
    if not res:
        return {'reproduced': None, 'how': how}
    o = res[0]
    got = 'PANIC' if o.get('panicked') else ('ERROR' if not o.get('ok') else [r[0] for r in o['rows']])
    how['engine'], how['expected'] = got, expected
    norm = lambda x: None if x is None else (str(x).lower() if isinstance(x, bool) else str(x))
    if isinstance(got, str):
        return {'reproduced': True, 'how': how}
    return {'reproduced': any(e not in ('ERROR', 'NULL-or-ERROR') and norm(e) != g for g, e in zip(got, expected)), 'how': how}


# ------------------------------------------------------------------------------------------------ main
FOLD = ('error-as-panic', 'overflow-wraps', 'spurious-panic', 'zero-modulus-panics')


def main(tier, only=None):
    rep = Report('C14', 'model_checking', './bin/check C14 --tier ' + tier)
    thorough = tier == 'thorough'
    profiles = [True, False] if thorough else [True]
    tasks = []
    paths = {}
    for oc in profiles:
        prog = engine.program(oc)
        paths[oc] = prog.path
    all_arms = arms(thorough)
    for oc in profiles:
        for a in all_arms:
            if only and only not in a[0]:
                continue
            n = 2 if (thorough or a[0] in ('and', 'or', 'not', 'select')) else 1
            tasks.append((a[0], a[1], a[2], n, oc, paths[oc]))
    with mp.Pool(16) as pool:
        results = pool.map(run_arm, tasks, chunksize=2)
    fns, nats = set(), set()
    states = transitions = 0
    for r, t in zip(results, tasks):
        fns |= set(r.get('fns', []))
        nats |= set(r.get('natives', []))
        rep.solver(r.get('solver_s', 0.0), len(r['obligations']))
        desc = '%s[%s] (%s, %d rows)' % (r['kernel'], r['arm'], r['profile'], r['n'])
        if 'inconclusive' in r:
            rep.fail_inconclusive('%s: %s' % (desc, r['inconclusive']))
            continue
        arm = [a for a in all_arms if a[0] == r['kernel'] and 'x'.join(a[2]) == r['arm']][0]
        states += 1
        for o in r['obligations']:
            transitions += 1
            if o['verdict'] == 'unsat':
                rep.obligation(True)
                rep.sample({'kernel': desc, 'obligation': o['kind'], 'verdict': 'holds for every raw value and validity bit'}, cap=6)
                continue
            if o['verdict'] == 'unknown':
                rep.obligation(False)
                rep.fail_inconclusive('solver unknown: %s %s' % (desc, o['kind']))
                continue
            kind = o['kind']
            key = 'kernel:%s:%s:%s' % (r['kernel'], kind, r['profile']) if kind in FOLD else 'kernel:%s:%s:%s:%s' % (r['kernel'], r['arm'], kind, r['profile'])
            if 'witness' in o:
                # dev-profile obligations are replayed on the dev build, release-profile ones on a release build of the driver
                rp = replay(r['kernel'], arm[2], o['witness'], o['expected'], arm[4], release=(r['profile'] == 'release'))
            else:
                rp = {'reproduced': None, 'how': {'note': 'no witness'}}
            rep.cov['traces_validated_against_impl'] = rep.cov.get('traces_validated_against_impl', 0) + (1 if rp['reproduced'] else 0)
            what = 'kernel %s[%s] (%s build): %s -- witness %s, SQL value %s, engine %s' % (
                r['kernel'], r['arm'], r['profile'], kind, json.dumps(o.get('witness')), json.dumps(o.get('expected')), json.dumps((rp.get('how') or {}).get('engine')))
            out = rep.counterexample(key, what[:500], {'obligation': o, 'desc': desc, 'replay': rp}, rp['reproduced'])
            rep.obligation(out == 'known')
            rep.sample({'kernel': desc, 'obligation': kind, 'verdict': 'sat', 'witness': o.get('witness'), 'expected': o.get('expected'), 'class': out,
                        'engine': (rp.get('how') or {}).get('engine')}, cap=14)
    # expression-level arms of Evaluator::eval (IS NULL, IN lists), composed from the kernels above
    if not only or only in ('IsNull', 'In', 'If'):
        from . import c14e
        etasks = [(node, tys, k, n, paths[True]) for node, tys, k in c14e.cases(thorough) for n in ((1, 2, 3) if thorough else (2,)) if not only or only == node]
        with mp.Pool(16) as pool:
            eres = pool.map(c14e.run_case, etasks, chunksize=1)
        for r in eres:
            fns |= set(r.get('fns', []))
            nats |= set(r.get('natives', []))
            rep.solver(r.get('solver_s', 0.0), len(r['obligations']))
            desc = 'Evaluator::eval on (%s %s) with %d list element(s), %d rows' % (r['node'], 'x'.join(r['tys']), r['k'], r['n'])
            if 'inconclusive' in r:
                rep.fail_inconclusive('%s: %s' % (desc, r['inconclusive']))
                continue
            states += 1
            for o in r['obligations']:
                transitions += 1
                if o['verdict'] == 'unsat':
                    rep.obligation(True)
                    rep.sample({'expression': desc, 'obligation': o['kind'], 'verdict': 'every row equals the scalar three-valued definition, whatever the other rows hold'}, cap=9)
                    continue
                if o['verdict'] == 'unknown':
                    rep.obligation(False)
                    rep.fail_inconclusive('solver unknown: %s' % desc)
                    continue
                rp = c14e.replay(r['node'], r['tys'], o['witness']) if o.get('witness') else {'reproduced': None, 'how': {}}
                rep.cov['traces_validated_against_impl'] = rep.cov.get('traces_validated_against_impl', 0) + (1 if rp['reproduced'] else 0)
                key = 'evaluator:%s:%s' % (r['node'], o['kind'])
                what = '%s: %s -- batch %s; engine %s, scalar definition %s' % (desc, o['kind'], json.dumps(o.get('witness')), json.dumps(rp['how'].get('engine')), json.dumps(rp['how'].get('expected')))
                out = rep.counterexample(key, what[:500], {'obligation': o, 'desc': desc, 'replay': rp}, rp['reproduced'])
                rep.obligation(out == 'known')
    # string functions: the index arithmetic of substring, for every string length
    if not only or only == 'substring':
        from . import c14s
        before = list(rep.cov.get('functions_encoded', []))
        c14s.run(rep, thorough)
        fns |= set(rep.cov.get('functions_encoded', []))
        nats |= set(d for d in NATIVE_DOC if 'chars window' in d or 'saturating' in d or 'str::chars' in d)
        sub_bounds = rep.cov.get('bounds', {}).get('substring')
    rep.cov['functions_encoded'] = sorted(f for f in fns if 'array' in f or 'ops' in f or f in ('binary_op', 'unary_op', 'select_op', 'try_unary_op', 'safen_dividend', 'f'))[:80]
    rep.cov['functions_encoded_count'] = len(fns)
    rep.cov['trusted_base'] = ['natives (std / bitvec models): ' + n for n in sorted(nats)] + ['crate contracts: ' + c for c in CRATE_CONTRACTS]
    rep.cov['states'] = states
    rep.cov['transitions'] = transitions
    rep.cov.setdefault('traces_validated_against_impl', 0)
    rep.cov['bounds'] = {'rows_per_array': '1 (2 for and/or/not/select; 2 everywhere in thorough)', 'raw slot contents and validity bits': 'fully symbolic (bit-vectors of the real width)',
                         'profiles': ['dev (overflow-checks on)'] + (['release (overflow-checks off)'] if thorough else []),
                         'arms': 'Bool and Int16/Int32/Int64 arms of every kernel; Float64/Decimal/String/Date arms are outside (arm coverage only)',
                         'substring': 'every string length n < 2^31 (the string is abstracted to its length), every i32 start and length; window claimed for start >= 0 and length >= 0, absence of panics for all'}
    rep.assumptions = ['array helpers are interpreted from their own MIR (binary_op, unary_op, select_op, try_unary_op, safen_dividend, from_data, builders); std iterator adaptors, bitvec and integer primitives are modelled (listed in trusted_base)',
                       'batch lengths beyond 2 rows and the 64-bit word boundary are carried by BitVecExt (checked on compiled code under C14k/Kani when available)']
    return rep.finish()


def replay_cmd(path):
    d = json.load(open(path))
    print(json.dumps(d['replay'], indent=1)[:6000])
    return 0


replay_file = replay_cmd
