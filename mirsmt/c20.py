"""C20 CSV export followed by import reproduces the table -- the NULL / empty-field convention (engine M)."""
import json, os, shutil, time
from z3 import And, Or, Not, BoolVal, Int, Bool, BitVec, is_true, Solver, sat
from vlib.common import Report, Inconclusive, rl, scratch_dir
from . import engine
from .engine import make_vm, check, satisfiable, find_fn
from .vm import Ref, Cell, Enum, SymEnum, BV, Struct, Seq, Bits, Str, Unsupported, mk_int
from .mir import MirSyntax
from .natives import sym_str, sid_of, CRATE_CONTRACTS, STR_AXIOMS

TYPES = {'Bool': ('bool', 'BOOLEAN'), 'Int16': ('i16', 'SMALLINT'), 'Int32': ('i32', 'INT'), 'Int64': ('i64', 'BIGINT'), 'String': ('str', 'VARCHAR')}
W = {'Int16': 16, 'Int32': 32, 'Int64': 64}


def cell_array(variant):
    """A one-row array of the given type whose cell is symbolic: (ArrayImpl value, is_null z3, payload)."""
    valid = Bool('cell_valid')
    if variant == 'String':
        sid = Int('cell_str')
        arr = Struct('StrArray', [Seq([SymEnum('Option', [(valid, Enum('Option', 'Some', [Ref(Cell(sym_str(sid)))])), (Not(valid), Enum('Option', 'None'))])])])
        return Enum('ArrayImpl', 'String', [Struct('Arc', [arr])]), valid, sid
    raw = Bool('cell_raw') if variant == 'Bool' else BitVec('cell_raw', W[variant])
    pa = Struct('PrimitiveArray', [Bits([valid]), Seq([raw if variant == 'Bool' else BV(raw, True)])])
    return Enum('ArrayImpl', variant, [Struct('Arc', [pa])]), valid, raw


def empty_builder(variant):
    if variant == 'String':
        return Enum('ArrayBuilderImpl', 'String', [Struct('StrArrayBuilder', [Seq([])])])
    return Enum('ArrayBuilderImpl', variant, [Struct('PrimitiveArrayBuilder', [Bits([]), Seq([])])])


def builder_cell(vm, b, variant):
    """(is_null, payload) of the single cell a builder holds after one push."""
    b = vm.deref_value(b)
    inner = b.fields[0]
    if variant == 'String':
        o = vm.deref_value(inner.fields[0].items[0])
        alts = o.alts if isinstance(o, SymEnum) else [(BoolVal(True), o)]
        nul = Or([c for c, a in alts if a.variant == 'None'] or [BoolVal(False)])
        sid = None
        for c, a in alts:
            if a.variant == 'Some':
                s = sid_of(vm, a.fields[0])
                sid = s if sid is None else __import__('z3').If(c, s, sid)
        return nul, sid
    valid, data = inner.fields[0], inner.fields[1]
    d = vm.deref_value(data.items[0])
    return Not(valid.bits[0]), (d.v if isinstance(d, BV) else d)


def run_type(variant, prog_path):
    os.environ['VERIF_MIR_OC'] = prog_path
    vm = make_vm(True)
    # the cell -> CSV field function the export executor applies (it calls ArrayImpl::get_to_string)
    f_get = find_fn(vm.prog, r'^copy_to_file::<impl at src/executor/copy_to_file\.rs:\d+:\d+: \d+:\d+>::write_file_blocking::\{closure#0\}$')
    hdr = vm.prog.get(f_get).header
    span = __import__('re').search(r'\{closure@[^}]*\}', hdr).group(0)
    f_push = find_fn(vm.prog, r'^array::<impl at src/array/mod\.rs:\d+:\d+: \d+:\d+>::push_str$')
    arr, valid, payload = cell_array(variant)
    obligations = []
    from .vm import Closure
    clo = Closure(span, [Ref(Cell(mk_int(0, 'usize')))], f_get.rsplit('::', 1)[0])
    outs = vm.run(f_get, [Ref(Cell(clo)), Ref(Cell(arr))])
    for o in outs:
        if o.kind != 'ret':
            obligations.append({'kind': 'export-fails', 'verdict': 'sat', 'pc': o.pc})
            continue
        s = o.value
        b = empty_builder(variant)
        bref = Ref(Cell(b))
        outs2 = vm.run(f_push, [bref, Ref(Cell(s))], o.pc)
        # every path is decided separately for a NULL cell, (strings) the empty string, and any other value, so that the
        # recorded empty-string finding cannot stand in for a different cell
        roles = [('null', Not(valid)), ('value', valid)]
        if variant == 'String':
            roles = [('null', Not(valid)), ('empty-string', And(valid, payload == 0)), ('value', And(valid, payload != 0))]
        for o2 in outs2:
            for role, rc in roles:
                pc = list(o2.pc) + list(STR_AXIOMS) + [rc]
                if o2.kind == 'panic' or (isinstance(o2.value, Enum) and o2.value.variant == 'Err'):
                    st, m = satisfiable(pc)
                    ob = {'kind': 'import-rejects-exported-cell', 'verdict': 'unsat' if st == 'unsat' else st, 'role': role}
                    if m is not None:
                        ob['witness'] = witness(m, variant, valid, payload)
                    obligations.append(ob)
                    continue
                nul, val = builder_cell(vm, o2.args[0], variant)
                claim = And(nul == Not(valid), Or(nul, val == payload)) if val is not None else (nul == Not(valid))
                st, m = check(pc, claim)
                ob = {'kind': 'cell-changes', 'verdict': st, 'role': role}
                if m is not None:
                    ob['witness'] = witness(m, variant, valid, payload)
                    ob['imported_null'] = bool(is_true(m.eval(nul, model_completion=True)))
                obligations.append(ob)
    return {'variant': variant, 'obligations': obligations, 'fns': sorted(vm.trace_fns), 'natives': sorted(vm.used_natives)}


def witness(m, variant, valid, payload):
    if not is_true(m.eval(valid, model_completion=True)):
        return {'cell': None}
    v = m.eval(payload, model_completion=True)
    if variant == 'String':
        sid = v.as_long()
        if sid in (0, 1):
            return {'cell': {0: '', 1: 'NULL'}[sid]}
        from .natives import STR_TRIM, STR_EQIC
        from z3 import IntVal
        t = m.eval(STR_TRIM(IntVal(sid)), model_completion=False)
        try:
            t = t.as_long()
        except AttributeError:
            t = None
        if t == 0:
            return {'cell': ' '}                     # a string that trims to the empty string
        if t == 1:
            return {'cell': ' NULL '}                # a string that trims to the text NULL
        if is_true(m.eval(STR_EQIC(IntVal(sid), IntVal(1)), model_completion=False)):
            return {'cell': 'null'}                  # a string equal to NULL up to case
        if t is not None and t != sid:
            return {'cell': ' str%d ' % t}           # a string with surrounding blanks
        return {'cell': 'str%d' % sid}
    if variant == 'Bool':
        return {'cell': bool(is_true(v))}
    x = v.as_long()
    return {'cell': x - (1 << v.size()) if x >= 1 << (v.size() - 1) else x}


def replay(variant, cell):
    """Decisive replay: COPY TO then COPY FROM through Database::run and compare the tables."""
    d = scratch_dir('csv')
    f = os.path.join(d, 't.csv')
    ty = TYPES[variant][1]
    lit = 'NULL' if cell is None else ("'%s'" % cell if variant == 'String' else ('true' if cell is True else 'false' if cell is False else str(cell)))
    stmts = ['create table t(x %s)' % ty, 'create table u(x %s)' % ty, 'insert into t values (%s)' % lit,
             "copy t to '%s'" % f, "copy u from '%s'" % f, 'select x from t', 'select x from u']
    out, rc, err = rl('sql', {'engine': 'mem', 'stmts': stmts})
    shutil.rmtree(d, ignore_errors=True)
    res = {o['sql']: o for o in out if 'sql' in o}
    how = {'stmts': stmts}
    a, b = res.get('select x from t'), res.get('select x from u')
    cp = res.get("copy u from '%s'" % f)
    if a is None or not a.get('ok'):
        return {'reproduced': None, 'how': how, 'note': 'replay did not run: ' + err[-200:]}
    how['exported_table'] = a.get('rows')
    how['import'] = 'ok' if (cp and cp.get('ok') and not cp.get('panicked')) else ('fails: ' + ((cp or {}).get('err') or 'panic'))
    how['imported_table'] = b.get('rows') if b and b.get('ok') else None
    return {'reproduced': how['import'] != 'ok' or how['imported_table'] != how['exported_table'], 'how': how}


def option_probes(rep, thorough):
    """The csv crate's quoting and the option plumbing (binder/copy.rs -> executors) are outside the interpreter.  They are
    probed end to end: for every supported delimiter / quote / header combination a table holding the delicate cells
    (delimiter, quote, newline, leading/trailing blanks, the text NULL, NULL itself, extreme numbers) is exported and
    re-imported through Database::run and the two tables are compared.  Concrete probes of a contract, not a solver decision."""
    import itertools
    delims = [',', '|', ';', '\t'] if thorough else [',', '|']
    quotes = ['"', "'"]
    headers = [False, True]
    cells = ["plain", "a,b", "a|b", 'say "hi"', "it's", "two\nlines", " padded ", "NULL", "x;y", "tab\there", " ", "   ", "null", " NULL ",
             "back\\slash", "c:\\dir,x", "c:\\dir|x", 'q \\"q\\" q', "it\\'s", "end\\", "nl\\\nx", "#hash", "a\rb", "\u00e9\u4e2d"]
    n = ok = 0
    seen = set()
    for d, q, h in itertools.product(delims, quotes, headers):
        wd = scratch_dir('csvopt')
        f = os.path.join(wd, 't.csv')
        opts = "(format csv, delimiter '%s', quote '%s'%s)" % (d if d != '\t' else '\t', q if q != "'" else "''", ', header true' if h else '')
        rows = ["(%d, '%s', %s)" % (i, c.replace("'", "''"), 'NULL' if i % 4 == 3 else str((-1) ** i * (2 ** (8 * (i % 4)) - 1))) for i, c in enumerate(cells)]
        rows.append("(%d, NULL, 0)" % len(cells))
        rows.append("(NULL, NULL, NULL)")          # a row of NULLs only: exported as a record of empty fields
        stmts = ['create table t(id int, s varchar, n bigint)', 'create table u(id int, s varchar, n bigint)', 'insert into t values ' + ', '.join(rows),
                 "copy t to '%s' %s" % (f, opts), "copy u from '%s' %s" % (f, opts), 'select id, s, n from t order by id', 'select id, s, n from u order by id']
        out, rc, err = rl('sql', {'engine': 'mem', 'stmts': stmts})
        shutil.rmtree(wd, ignore_errors=True)
        res = {o['sql']: o for o in out if 'sql' in o}
        a, b = res.get(stmts[-2]), res.get(stmts[-1])
        cp_to, cp_from = res.get(stmts[3]), res.get(stmts[4])
        n += 1
        if a is None or not a.get('ok'):
            rep.fail_inconclusive('csv option probe did not run: %s' % err[-200:])
            continue
        if cp_to is None or not cp_to.get('ok') or cp_to.get('panicked'):
            rep.skip('COPY TO %s' % opts, 'the export statement is not accepted with these options: %s' % ((cp_to or {}).get('err') or 'panic'))
            continue
        imp_ok = cp_from is not None and cp_from.get('ok') and not cp_from.get('panicked')
        same = imp_ok and b is not None and b.get('ok') and sorted(map(json.dumps, a['rows'])) == sorted(map(json.dumps, b['rows']))
        if same:
            ok += 1
            continue
        if imp_ok and b is not None and b.get('ok'):
            missing = [r for r in a['rows'] if r not in b['rows']]
            extra = [r for r in b['rows'] if r not in a['rows']]
        else:
            missing, extra = 'import fails: %s' % ((cp_from or {}).get('err') or 'panic'), []
        key = 'csv:option:%s' % ('header' if h and not isinstance(missing, str) and len(missing) == 1 and not extra and missing[0][0] == '0' else 'delimiter=%s,quote=%s,header=%s' % (d, q, h))
        if key in seen:
            continue
        seen.add(key)
        what = 'COPY TO / COPY FROM with %s does not reproduce the table: rows lost or changed %s, rows appearing %s' % (opts, json.dumps(missing)[:200], json.dumps(extra)[:200])
        outc = rep.counterexample(key, what[:500], {'stmts': stmts, 'exported': a['rows'], 'imported': b.get('rows') if b else None}, True)
        rep.obligation(outc == 'known')
    # the delicate cells again as the *first* field of a record (a reader may treat the start of a line specially:
    # comment characters, byte-order marks, blank lines), with the default options and a pipe delimiter
    for d in [',', '|']:
        wd = scratch_dir('csvopt')
        f = os.path.join(wd, 'f.csv')
        opts = "(format csv, delimiter '%s')" % d
        lead = cells + ["#", "# note", ";x", "//x", "--x", "\ufeffbom", "=1+1", "@a", "-", "\\N"]
        rows = ["('%s', %d)" % (c.replace("'", "''"), i) for i, c in enumerate(lead)] + ["(NULL, %d)" % len(lead)]
        stmts = ['create table f(s varchar, k int)', 'create table g(s varchar, k int)', 'insert into f values ' + ', '.join(rows),
                 "copy f to '%s' %s" % (f, opts), "copy g from '%s' %s" % (f, opts), 'select s, k from f order by k', 'select s, k from g order by k']
        out, rc, err = rl('sql', {'engine': 'mem', 'stmts': stmts})
        shutil.rmtree(wd, ignore_errors=True)
        res = {o['sql']: o for o in out if 'sql' in o}
        a, b, cp_from = res.get(stmts[-2]), res.get(stmts[-1]), res.get(stmts[4])
        n += 1
        if a is None or not a.get('ok'):
            rep.fail_inconclusive('csv first-field probe did not run: %s' % err[-200:])
            continue
        imp_ok = cp_from is not None and cp_from.get('ok') and not cp_from.get('panicked')
        if imp_ok and b is not None and b.get('ok') and a['rows'] == b['rows']:
            ok += 1
            continue
        if imp_ok and b is not None and b.get('ok'):
            missing = [r for r in a['rows'] if r not in b['rows']]
            extra = [r for r in b['rows'] if r not in a['rows']]
        else:
            missing, extra = 'import fails: %s' % ((cp_from or {}).get('err') or 'panic'), []
        # the recorded empty-string finding shows here as ('' -> NULL); anything else is new
        if missing == [['', str(lead.index(''))]] if '' in lead else False:
            ok += 1
            continue
        what = 'COPY TO / COPY FROM with %s and a VARCHAR first column does not reproduce the table: rows lost or changed %s, rows appearing %s' % (opts, json.dumps(missing)[:200], json.dumps(extra)[:200])
        outc = rep.counterexample('csv:first-field:delimiter=%s' % d, what[:500], {'stmts': stmts, 'exported': a['rows'], 'imported': b.get('rows') if b else None}, True)
        rep.obligation(outc == 'known')
    # every column type COPY can carry (one NULL per column) and a table larger than one chunk
    wd = scratch_dir('csvopt')
    f1, f2 = os.path.join(wd, 'types.csv'), os.path.join(wd, 'bulk.csv')
    tys = 'a smallint, b int, c bigint, d boolean, e varchar, f date, g double, h decimal(10,2)'
    rows = ["(1, 2, 3000000000, true, 'x', date '2024-02-29', 1.5, 12.34)", "(-32768, -2147483648, -3, false, 'a b', date '1970-01-01', -0.25, -0.01)",
            '(NULL, 1, 1, true, NULL, NULL, 2.0, NULL)', "(5, NULL, NULL, NULL, 'z', date '9999-12-31', NULL, 0.00)"]
    bulk = ', '.join("(%d, 's%d')" % (i, i % 97) for i in range(2500))
    stmts = ['create table t(%s)' % tys, 'create table u(%s)' % tys, 'insert into t values ' + ', '.join(rows), "copy t to '%s'" % f1, "copy u from '%s'" % f1,
             'select * from t', 'select * from u', 'create table b1(k int, s varchar)', 'create table b2(k int, s varchar)', 'insert into b1 values ' + bulk,
             "copy b1 to '%s'" % f2, "copy b2 from '%s'" % f2, 'select count(*), sum(k), count(distinct s) from b1', 'select count(*), sum(k), count(distinct s) from b2',
             'select count(*) from b1, b2 where b1.k = b2.k and b1.s = b2.s']
    out, rc, err = rl('sql', {'engine': 'mem', 'stmts': stmts}, timeout=300)
    shutil.rmtree(wd, ignore_errors=True)
    res = {o['sql']: o for o in out if 'sql' in o}
    def rows_of(sql):
        o = res.get(sql)
        return o['rows'] if o and o.get('ok') and not o.get('panicked') else 'FAILS: %s' % (((o or {}).get('err')) or 'panic / not run')
    n += 2
    a_, b_ = rows_of('select * from t'), rows_of('select * from u')
    if isinstance(a_, list) and isinstance(b_, list) and sorted(map(json.dumps, a_)) == sorted(map(json.dumps, b_)):
        ok += 1
    else:
        imp = res.get(stmts[4]) or {}
        what = 'COPY round trip of a table with columns (%s): exported %s, imported %s%s' % (tys, json.dumps(a_)[:200], json.dumps(b_)[:200], '' if imp.get('ok') else '; import fails: %s' % imp.get('err'))
        outc = rep.counterexample('csv:types', what[:600], {'stmts': stmts[:7]}, True)
        rep.obligation(outc == 'known')
    c1, c2, cj = rows_of(stmts[12]), rows_of(stmts[13]), rows_of(stmts[14])
    if c1 == c2 and cj == [['2500']]:
        ok += 1
    else:
        outc = rep.counterexample('csv:bulk', 'COPY round trip of 2500 rows (several chunks): exported %s, imported %s, rows found again %s' % (c1, c2, cj), {'stmts': [x[:100] for x in stmts[7:]]}, True)
        rep.obligation(outc == 'known')
    rep.cov['csv_option_probes'] = {'combinations': n, 'round_trips_exact': ok, 'note': 'end-to-end probes of the csv crate + option plumbing (not a solver decision)'}


def main(tier, only=None):
    rep = Report('C20', 'model_checking', './bin/check C20 --tier ' + tier)
    prog = engine.program(True)
    fns, nats = set(), set()
    states = transitions = 0
    for variant in TYPES:
        if only and only not in variant:
            continue
        t0 = time.time()
        try:
            r = run_type(variant, prog.path)
        except (Unsupported, MirSyntax, KeyError, Inconclusive, AttributeError, IndexError) as ex:
            rep.fail_inconclusive('%s: %s: %s' % (variant, type(ex).__name__, str(ex)[:300]))
            continue
        rep.solver(time.time() - t0, len(r['obligations']))
        fns |= set(r['fns'])
        nats |= set(r['natives'])
        states += 1
        for o in r['obligations']:
            transitions += 1
            desc = 'push_str(export_field(cell)) for a %s cell' % variant
            if o['verdict'] == 'unsat':
                rep.obligation(True)
                rep.sample({'obligation': desc, 'case': o['kind'], 'verdict': 'holds for every cell (NULL or any value)'}, cap=8)
                continue
            if o['verdict'] == 'unknown':
                rep.obligation(False)
                rep.fail_inconclusive('solver unknown: ' + desc)
                continue
            cell = o.get('witness', {}).get('cell')
            rp = replay(variant, cell)
            rep.cov['traces_validated_against_impl'] = rep.cov.get('traces_validated_against_impl', 0) + (1 if rp['reproduced'] else 0)
            shape = o.get('role') or ('null' if cell is None else ('empty-string' if cell == '' else 'value'))
            key = 'csv:%s:%s:%s' % (variant, o['kind'], shape)
            what = 'CSV round trip of a %s cell %r: %s; end to end: import %s, exported %s, imported %s' % (
                variant, cell, o['kind'], rp.get('how', {}).get('import'), rp.get('how', {}).get('exported_table'), rp.get('how', {}).get('imported_table'))
            out = rep.counterexample(key, what[:500], {'obligation': {k: v for k, v in o.items() if k != 'pc'}, 'replay': rp}, rp['reproduced'])
            rep.obligation(out == 'known')
            rep.sample({'obligation': desc, 'verdict': 'sat', 'cell': cell, 'case': o['kind'], 'end_to_end': rp.get('how'), 'class': out}, cap=12)
    if not only:
        option_probes(rep, tier == 'thorough')
    rep.cov['functions_encoded'] = sorted(fns)[:40]
    rep.cov['trusted_base'] = ['natives: ' + n for n in sorted(nats)] + ['crate contracts: ' + c for c in CRATE_CONTRACTS]
    rep.cov['states'], rep.cov['transitions'] = max(states, 1), max(transitions, 1)
    rep.cov.setdefault('traces_validated_against_impl', 0)
    rep.cov['bounds'] = {'types': 'Bool, Int16, Int32, Int64, String (others: arm coverage only)', 'cells': 'NULL or any value; strings as identities with "" and "NULL" distinguished'}
    rep.assumptions = ['Display / FromStr of each scalar type form a bijection between values and non-empty strings other than "NULL" (uninterpreted)',
                       "the csv crate's quoting, the option plumbing in binder/copy.rs and the executors (spawn_blocking, files) are outside; the replay runs them end to end"]
    return rep.finish()


def replay_cmd(path):
    print(json.dumps(json.load(open(path))['replay'], indent=1)[:6000])
    return 0
