"""C02(a): the aggregate state machine follows the SQL definition on every input sequence and every chunking."""
import json, multiprocessing as mp
from . import engine, agg
from .natives import CRATE_CONTRACTS


def run(rep, thorough, only=None):
    prog = engine.program(True)
    tasks = []
    for a in ('sum', 'count', 'min', 'max', 'rowcount', 'count-distinct'):
        if only and only not in a:
            continue
        for elem in (['Int32', 'Int64'] if thorough else ['Int32']):
            for n in ([0, 1, 2, 3] if thorough else [0, 1, 2]):
                for sp in agg.splits(n, 3 if thorough else 2):
                    tasks.append((a, elem, n, sp, 'eval_agg', prog.path))
                tasks.append((a, elem, n, (n,), 'agg_append', prog.path))
    with mp.Pool(16) as pool:
        results = pool.map(agg.sql_task, tasks, chunksize=2)
    fns, nats = set(), set()
    for r in results:
        fns |= set(r.get('fns', []))
        nats |= set(r.get('natives', []))
        rep.solver(r.get('solver_s', 0.0), len(r['obligations']))
        desc = '%s(%s) over %d rows, %s, chunks %s' % (r['agg'], r['elem'], r['n'], 'array path (simple aggregation)' if r['path'] == 'eval_agg' else 'row path (hash / sort aggregation)', r['split'])
        if 'inconclusive' in r:
            rep.fail_inconclusive(desc + ': ' + r['inconclusive'])
            continue
        rep.cov['programs'] += 1
        for o in r['obligations']:
            if o['verdict'] == 'unsat':
                rep.obligation(True)
                rep.sample({'aggregate': desc, 'obligation': 'result == SQL definition (NULLs skipped; NULL / 0 on no input)', 'verdict': 'holds for all values'}, cap=6)
                continue
            if o['verdict'] == 'unknown':
                rep.obligation(False)
                rep.fail_inconclusive('solver unknown: ' + desc)
                continue
            empty = r['path'] == 'eval_agg' and 0 in r['split'] and r['n'] == 0
            how = agg.replay(r['agg'], r['elem'], o['witness'] if not empty else [{'raw': 1, 'valid': True}], empty_chunk=empty)
            got = how['simple_agg'] if r['path'] == 'eval_agg' else how['hash_agg']
            exp = o.get('expected')
            if got == 'NO ROW' and r['path'] == 'agg_append' and r['n'] == 0:
                reproduced = None      # GROUP BY over no rows yields no group: the row path's empty-input state is never observed
            else:
                reproduced = (None if exp is None else str(exp)) != got
            rep.cov['disagreements_checked'] += 1
            shape = 'empty-input' if r['n'] == 0 else ('nulls' if any(not w['valid'] for w in o['witness']) else 'values')
            key = 'agg-sql:%s:%s:%s:%s' % (r['agg'], r['path'], o['kind'], shape)
            what = 'aggregate %s via %s: SQL says %s, the state machine yields %s on rows %s (chunks %s); engine returns %s' % (
                r['agg'], r['path'], exp, o.get('model_result'), json.dumps(o['witness']), r['split'], got)
            out = rep.counterexample(key, what[:500], {'obligation': o, 'desc': desc, 'replay': how}, reproduced)
            rep.obligation(out == 'known')
            rep.sample({'aggregate': desc, 'verdict': 'sat', 'witness': o['witness'], 'sql': exp, 'state_machine': o.get('model_result'), 'engine': got, 'class': out}, cap=14)
    rep.cov['functions_encoded'] = list(rep.cov.get('functions_encoded', [])) + sorted(f for f in fns)[:60]
    rep.cov['trusted_base'] = list(rep.cov.get('trusted_base', [])) + ['natives: ' + n for n in sorted(nats)] + ['crate contracts: ' + c for c in CRATE_CONTRACTS]
