"""C06, end-to-end probe of the column layer (concrete; the column builders / iterators are async code outside both
solver engines): for every storable column type a table is written on the disk engine with tiny blocks (many blocks per
column, several row-sets), read back whole, after deleting ranges (skips), after a forced compaction pass (which rewrites
the columns, with run-length / dictionary encoding where the data has few distinct values) and after a clean reopen; every
read must equal what the in-memory engine returns for the same statements."""
import json, re, shutil, time
from vlib.common import rl, scratch_dir


def lit_str(s):
    return "'" + s.replace("'", "''") + "'"


def type_values():
    """type name -> (declared type, [SQL literal or None])"""
    ints = lambda lo, hi: [lo, hi, 0, 1, -1, 7, 7, 7, 7, 7, None, None, 42, lo + 1, hi - 1, 3, 3, None, 9, 10, 11, 12, 13, 14, 15, 16, 5, 5, 5, 5, 5, 5, 6, 6, 6, 6, 6, 6, 2, 8]
    T = {}
    T['smallint'] = ('smallint', [None if v is None else str(v) for v in ints(-32768, 32767)])
    T['int'] = ('int', [None if v is None else str(v) for v in ints(-2147483648, 2147483647)])
    T['bigint'] = ('bigint', [None if v is None else str(v) for v in ints(-9223372036854775807, 9223372036854775807)])
    T['boolean'] = ('boolean', [[None, 'true', 'false', 'true', 'true', 'true', 'false'][i % 7] for i in range(40)])
    dbl = ['0', '-0.0', '1.5', '-2.25', '1e300', '-1e-300', 'NaN', 'inf', '-inf', '3.141592653589793', '7', '7', '7', '7', '7', '7']
    T['double'] = ('double', [None if i % 9 == 4 else "cast('%s' as double)" % dbl[i % len(dbl)] for i in range(40)])
    T['date'] = ('date', [None if i % 8 == 3 else "date '%s'" % ['1970-01-01', '2000-02-29', '9999-12-31', '0001-01-01', '1999-12-31', '2024-06-15', '2024-06-15', '2024-06-15'][i % 8] for i in range(40)])
    T['timestamp'] = ('timestamp', [None if i % 7 == 2 else "timestamp '%s'" % ['1970-01-01 00:00:00', '2000-02-29 23:59:59', '2038-01-19 03:14:08', '1999-12-31 12:00:00', '2024-06-15 01:02:03'][i % 5] for i in range(40)])
    strs = ['', 'a', 'ab', 'abc', 'x' * 40, 'y' * 200, 'same', 'same', 'same', 'same', 'same', 'same', 'a,b', "q'q", 'new\nline', ' pad ', 'é中', 'z' * 17]
    T['varchar'] = ('varchar', [None if i % 6 == 5 else lit_str(strs[i % len(strs)]) for i in range(40)])
    T['varchar-not-null'] = ('varchar not null', [lit_str(strs[i % len(strs)]) for i in range(40)])
    ch = ['', 'a', 'ab', 'abcde', 'abcd', 'k', 'k', 'k', 'k', 'k', 'k']
    T['char5'] = ('char(5)', [None if i % 7 == 6 else lit_str(ch[i % len(ch)]) for i in range(40)])
    T['interval'] = ('interval', [None if i % 5 == 4 else "interval '%d' %s" % ([1, 3, 14, 400, 7, 7, 7, 7][i % 8], ['day', 'month', 'month', 'day', 'year', 'day', 'day', 'day'][i % 8]) for i in range(40)])
    T['decimal'] = ('decimal(10,2)', [None if i % 6 == 1 else ['0.00', '1.25', '-99999999.99', '99999999.99', '3.50', '3.50', '3.50', '3.50', '3.50'][i % 9] for i in range(40)])
    # columns whose first array holds no NULL and whose later arrays do (a compaction pass feeds the column builder one
    # array per row-set; a block opened by the first may still be open when the next arrives)
    T['varchar-late-nulls'] = ('varchar', [lit_str(strs[i % len(strs)]) if i < 17 or i % 3 else None for i in range(40)])
    T['char5-late-nulls'] = ('char(5)', [lit_str(ch[i % len(ch)]) if i < 17 or i % 3 else None for i in range(40)])
    T['int-late-nulls'] = ('int', [str(i * 3) if i < 17 or i % 3 else None for i in range(40)])
    T['double-late-nulls'] = ('double', ["cast('%s' as double)" % dbl[i % len(dbl)] if i < 17 or i % 4 else None for i in range(40)])
    blobs = ["'\\xAA\\xFF'", "'plain'", "''", "'\\x00\\x01\\x02'", "'" + 'b' * 60 + "'", "'q''q'", "'same'", "'same'", "'same'", "'same'", "'same'"]
    T['blob'] = ('blob', [None if i % 5 == 3 else blobs[i % len(blobs)] for i in range(40)])
    T['blob-not-null'] = ('blob not null', [blobs[i % len(blobs)] for i in range(40)])
    T['int-not-null'] = ('int not null', [str([5, 5, 5, 5, 5, 5, 5, 5, 9, 9, 9, 9, 9, 9, 1, 2][i % 16]) for i in range(40)])
    return T


def statements(disk):
    T = type_values()
    stmts, reads = [], []
    def read(stage):
        for name in T:
            q = 'select k, v from t_%s order by k' % name.replace('-', '_')
            stmts.append(q)
            reads.append((len(stmts) - 1, name, stage))
    for name, (decl, vals) in T.items():
        t = 't_' + name.replace('-', '_')
        stmts.append('create table %s(k int not null, v %s)' % (t, decl))
        rows = ['(%d, %s)' % (i, 'NULL' if v is None else v) for i, v in enumerate(vals)]
        for part in (rows[:17], rows[17:30], rows[30:]):
            stmts.append('insert into %s values %s' % (t, ', '.join(part)))
    read('written')
    # every DELETE below runs while each table has a single row-set: the background compactor only touches tables with
    # two or more, so the recorded compactor / DELETE race (C07 known finding) cannot interfere with this probe
    if disk:
        stmts.append('--sleep 2400')
    read('after a compaction pass')
    for name in T:
        stmts.append('delete from t_%s where k >= 6 and k < 24' % name.replace('-', '_'))
    read('after deleting a range')
    if disk:
        stmts.append('--reopen')
    read('after reopening')
    for name, (decl, vals) in T.items():
        t = 't_' + name.replace('-', '_')
        stmts.append('insert into %s values %s' % (t, ', '.join('(%d, %s)' % (100 + i, 'NULL' if v is None else v) for i, v in enumerate(vals[:12]))))
    if disk:
        stmts.append('--sleep 2400')
    for name in T:
        stmts.append('delete from t_%s where k >= 30 and k < 104' % name.replace('-', '_'))
    read('after more inserts, a second compaction and deletes')
    return stmts, reads


def run(rep, thorough):
    t0 = time.time()
    s_mem, r_mem = statements(False)
    out, rc, err = rl('sql', {'engine': 'mem', 'stmts': s_mem}, timeout=300)
    mem = [o for o in out if 'sql' in o]
    if len(mem) != len(s_mem):
        rep.fail_inconclusive('column round-trip probe: the reference run on the memory engine did not complete: %s' % err[-200:])
        return
    n = ok = 0
    for block in ((64, 128, 4096) if thorough else (64, 4096)):
        s_disk, r_disk = statements(True)
        d = scratch_dir('c06p')
        out, rc, err = rl('sql', {'engine': 'disk', 'dir': d, 'block': block, 'rowset': 1 << 20, 'stmts': s_disk}, timeout=600)
        shutil.rmtree(d, ignore_errors=True)
        disk = [o for o in out if 'sql' in o]
        if len(disk) != len(s_disk):
            if 'panic' in err and rc not in (-9,):
                # the engine dies while writing / reading a column the memory engine handles: a failed round trip
                last = s_disk[len(disk)] if len(disk) < len(s_disk) else '?'
                m_ = re.search(r't_(\w+)', last)
                what = 'the disk engine (%d-byte blocks) panics on `%s` (the memory engine completes the same statements): %s' % (block, last[:120], err[-220:].replace('\n', ' '))
                outc = rep.counterexample('disk-roundtrip:%s:engine-panics' % (m_.group(1) if m_ else 'unknown'), what[:500], {'stmts': s_disk[max(0, len(disk) - 6):len(disk) + 1], 'stderr': err[-600:]}, True)
                rep.obligation(outc == 'known')
                continue
            rep.fail_inconclusive('column round-trip probe (%d-byte blocks) did not complete: %s' % (block, err[-300:]))
            continue
        rep.cov['programs'] += 1
        seen = set()
        for (im, name, stage), (idk, _, _) in zip(r_mem, r_disk):
            a, b = mem[im], disk[idk]
            n += 1
            if not a.get('ok') or a.get('panicked'):
                continue          # not storable / not readable on the reference engine either: nothing to compare
            same = b.get('ok') and not b.get('panicked') and a['rows'] == b['rows']
            if same:
                ok += 1
                continue
            if name in seen:
                continue
            seen.add(name)
            got = b['rows'] if b.get('ok') else b.get('err')
            diff = [(x, y) for x, y in zip(a['rows'], got)] if isinstance(got, list) else []
            first = next(((x, y) for x, y in diff if x != y), None)
            what = 'a %s column written on disk with %d-byte blocks reads back differently %s: %d rows expected, %s returned; first difference (expected, read) %s' % (
                type_values()[name][0], block, stage, len(a['rows']), len(got) if isinstance(got, list) else got, json.dumps(first)[:160])
            outc = rep.counterexample('disk-roundtrip:%s:%s' % (name, stage.split(' ')[0] + '-' + stage.split(' ')[1]), what[:500],
                                      {'stmts': [s for s in s_disk[:idk + 1] if name.replace('-', '_') in s or s.startswith('--')][-12:], 'expected': a['rows'][:50], 'read': got[:50] if isinstance(got, list) else got}, True)
            rep.obligation(outc == 'known')
    if n and ok == n:
        rep.obligation(True)
    rep.cov['column_roundtrip_probes'] = {'reads_compared': n, 'agreeing': ok, 'wall_s': round(time.time() - t0, 1),
                                         'note': 'every storable column type on disk (tiny and default blocks, three row-sets, range deletes, forced compaction, reopen) against the memory engine; concrete probes, not a solver decision'}
