"""C13, storage side: the seek position a range scan starts from never lies beyond a row of the range (engine M).

`DiskRowset::start_rowid` (the body of the async fn, interpreted from its MIR) walks the block index of the first column and
returns the row id the scan seeks to.  Modelled state: one row-set of N rows whose keys k[0..N) are stored in non-decreasing
order (MemRowset sorts by the primary key before flushing; duplicate keys are accepted by the engine), cut into B blocks
at arbitrary boundaries, with the block index carrying each block's first row id and first key.  Obligation, for every
such row-set and every Int32 begin key b:   for all r < start_rowid(b):  k[r] < b      (no row with key >= b is skipped).
Counterexamples are replayed through SQL on a disk database whose block size makes the block boundaries fall where the
model has them."""
import itertools, json, os, re, shutil, time
from z3 import And, Or, Not, BoolVal, BitVec, BitVecVal, ULT, ULE, Solver, sat, is_true, If, Implies
from vlib.common import Inconclusive, rl, scratch_dir, log
from . import engine
from .engine import make_vm, check, satisfiable, find_fn
from .vm import Ref, Cell, Enum, BV, Struct, Seq, Opaque, Unsupported, mk_int, Coroutine
from .mir import MirSyntax
from .natives import crate_contract, CRATE_CONTRACTS

_INDEX = {}


@crate_contract(r'(^|::)DiskRowset::column$', 'DiskRowset::column(i): handle of column i (opaque; only its block index is read)')
def _column(vm, m, callee, args):
    return Opaque('Column')


@crate_contract(r'(^|::)Column::index$', 'Column::index(): the column\'s block index (supplied by the harness)')
def _col_index(vm, m, callee, args):
    return Ref(Cell(Opaque('ColumnIndex')))


@crate_contract(r'(^|::)ColumnIndex::indexes$', 'ColumnIndex::indexes(): the slice of BlockIndex entries (supplied by the harness)')
def _indexes(vm, m, callee, args):
    return Ref(Cell(_INDEX['seq']))


@crate_contract(r'^<i32 as encode::PrimitiveFixedWidthEncode>::decode::<&\[u8\]>$',
                'i32::decode(first_key bytes) = the key whose encoding the column builder recorded (encode/decode round trip is proved under C06)')
def _decode(vm, m, callee, args):
    v = vm.deref_value(args[0])
    v = vm.deref_value(v)
    if isinstance(v, Seq) and len(v.items) == 1:
        v = v.items[0]
    if isinstance(v, Opaque) and v.tag == 'first_key':
        return v.data
    raise Unsupported('decode of %r' % (v,))


def layouts(n_rows, max_blocks):
    """Block boundaries: tuples of first row ids (0 = b0 < b1 < ... < n_rows)."""
    for nb in range(1, max_blocks + 1):
        for cut in itertools.combinations(range(1, n_rows), nb - 1):
            yield (0,) + cut


def run_layout(vm, fname, n_rows, firsts):
    keys = [BitVec('k%d' % i, 32) for i in range(n_rows)]
    begin = BitVec('begin', 32)
    sorted_ = [keys[i] <= keys[i + 1] for i in range(n_rows - 1)]
    blocks = []
    for j, fr in enumerate(firsts):
        cnt = (firsts[j + 1] if j + 1 < len(firsts) else n_rows) - fr
        # risinglight_proto::rowset::BlockIndex { offset, length, first_rowid, row_count, first_key, .. }
        blocks.append(Struct('BlockIndex', [Opaque('offset'), Opaque('length'), mk_int(fr, 'u32'), mk_int(cnt, 'u32'),
                                             Seq([Opaque('first_key', BV(keys[fr], True))], 'vec')]))
    _INDEX['seq'] = Seq([b for b in blocks], 'slice')
    rowset = Opaque('DiskRowset')
    key = Enum('DataValue', 'Int32', [BV(begin, True)])
    co = Coroutine('start_rowid', [Ref(Cell(rowset)), Enum('Option', 'Some', [Ref(Cell(key))])])
    pin = Struct('Pin', [Ref(Cell(co))])
    outs = vm.run(fname, [pin, Ref(Cell(Opaque('Context')))], pc=tuple(sorted_))
    res = []
    for o in outs:
        if o.kind != 'ret':
            res.append({'kind': 'panic', 'verdict': 'sat', 'pc': o.pc})
            continue
        v = o.value
        if not (isinstance(v, Enum) and v.variant == 'Ready'):
            raise Unsupported('start_rowid did not complete: %r' % (v,))
        pos = v.fields[0]
        if not (isinstance(pos, Enum) and pos.variant == 'RowId'):
            raise Unsupported('unexpected seek position %r' % (pos,))
        start = pos.fields[0].v
        claim = And([Implies(ULT(BitVecVal(r, 32), start), keys[r] < begin) for r in range(n_rows)] + [ULE(start, BitVecVal(n_rows, 32))])
        st, m = check(list(o.pc), claim)
        ob = {'kind': 'seek-skips-a-row-of-the-range', 'verdict': st}
        if m is not None:
            sg = lambda x: (lambda u: u - (1 << 32) if u >= 1 << 31 else u)(m.eval(x, model_completion=True).as_long())
            ob['witness'] = {'keys': [sg(k) for k in keys], 'begin': sg(begin), 'block_first_rows': list(firsts), 'start_rowid': m.eval(start, model_completion=True).as_long()}
        res.append(ob)
    return res


def replay(w):
    """Build the row-set through SQL (one INSERT = one row-set, stored in key order) with a block size that puts the
    model's block boundaries in place, then compare the range scan with the same predicate evaluated without pushdown."""
    keys, begin, firsts = w['keys'], w['begin'], w['block_first_rows']
    sizes = [(firsts[j + 1] if j + 1 < len(firsts) else len(keys)) - firsts[j] for j in range(len(firsts))]
    how = {'tried': []}
    for per_block in range(max(sizes), max(sizes) + 3):
        # pad every block to `per_block` rows by repeating its last key (keeps the order and every block's first key)
        col = []
        for j, fr in enumerate(firsts):
            blk = keys[fr:fr + sizes[j]]
            col += blk + [blk[-1]] * (per_block - len(blk) if j + 1 < len(firsts) else 0)
        vals = ', '.join('(%d, %d)' % (k, i) for i, k in enumerate(col))
        q = 'select count(*) from t where k >= %d' % begin
        stmts = ['create table t(k int primary key, v int)', 'create table zz_verif_dummy(z int)', 'insert into t values ' + vals, 'set mock_rowcount_zz_verif_dummy = 1',
                 q, 'pragma disable_optimizer', q]
        for bytes_per_row in (4, 5):
            d = scratch_dir('c13m')
            out, rc, err = rl('sql', {'engine': 'disk', 'dir': d, 'block': 16 + per_block * bytes_per_row, 'rowset': 1 << 20, 'stmts': stmts})
            shutil.rmtree(d, ignore_errors=True)
            got = [o.get('rows') for o in out if o.get('sql') == q and o.get('ok')]
            how['tried'].append({'rows_per_block': per_block, 'block_bytes': 16 + per_block * bytes_per_row, 'pushdown_vs_full': got})
            if len(got) == 2 and got[0] != got[1]:
                how.update(stmts=stmts, block_bytes=16 + per_block * bytes_per_row, range_scan=got[0], full_scan=got[1])
                return {'reproduced': True, 'how': how}
    return {'reproduced': False, 'how': how}


def run(rep, thorough, only=None):
    n_rows = 5 if thorough else 4
    max_blocks = 4 if thorough else 3
    t0 = time.time()
    try:
        vm = make_vm(True)
        fname = find_fn(vm.prog, r'^disk_rowset::<impl at src/storage/secondary/rowset/disk_rowset\.rs:\d+:\d+: \d+:\d+>::start_rowid::\{closure#0\}$')
    except (Inconclusive, Unsupported, MirSyntax) as ex:
        rep.fail_inconclusive('start_rowid: %s' % ex)
        return
    n = 0
    for firsts in layouts(n_rows, max_blocks):
        desc = 'start_rowid on a row-set of %d rows with blocks starting at rows %s' % (n_rows, list(firsts))
        try:
            obs = run_layout(vm, fname, n_rows, firsts)
        except (Unsupported, MirSyntax, KeyError, IndexError, AttributeError) as ex:
            rep.fail_inconclusive('%s: %s: %s' % (desc, type(ex).__name__, str(ex)[:300]))
            continue
        for o in obs:
            n += 1
            rep.cov['programs'] += 1
            if o['verdict'] == 'unsat':
                rep.obligation(True)
                rep.sample({'obligation': desc, 'verdict': 'holds for every sorted key sequence (duplicates included) and every begin key'}, cap=14)
                continue
            if o['verdict'] == 'unknown':
                rep.obligation(False)
                rep.fail_inconclusive('solver unknown: ' + desc)
                continue
            if o['kind'] == 'panic':
                rep.obligation(False)
                rep.fail_inconclusive('start_rowid panics on an Int32 key: ' + desc)
                continue
            w = o['witness']
            rp = replay(w)
            rep.cov['disagreements_checked'] += 1
            dup = any(w['keys'][f] == w['begin'] and f > 0 and w['keys'][f - 1] == w['begin'] for f in w['block_first_rows'])
            key = 'storage:start_rowid:%s' % ('run-of-the-begin-key-crosses-a-block-boundary' if dup else 'other')
            what = 'range scan seeks past rows of the range: keys %s in blocks starting at rows %s, begin key %d -> start_rowid %d; end to end (block %s bytes): range scan %s, full scan %s' % (
                w['keys'], w['block_first_rows'], w['begin'], w['start_rowid'], rp['how'].get('block_bytes'), rp['how'].get('range_scan'), rp['how'].get('full_scan'))
            out = rep.counterexample(key, what[:500], {'obligation': {k: v for k, v in o.items() if k != 'pc'}, 'replay': rp}, rp['reproduced'])
            rep.obligation(out == 'known')
            rep.sample({'obligation': desc, 'verdict': 'sat', 'witness': w, 'class': out}, cap=14)
    rep.solver(time.time() - t0, n)
    rep.cov['functions_encoded'] = list(rep.cov.get('functions_encoded', [])) + ['DiskRowset::start_rowid (async body, from MIR): ' + ', '.join(sorted(vm.trace_fns))[:300]]
    rep.cov['trusted_base'] = list(rep.cov.get('trusted_base', [])) + ['engine M natives: ' + ', '.join(sorted(vm.used_natives))[:400]] + \
        ['crate contract: ' + c for c in CRATE_CONTRACTS if re.search(r'DiskRowset::column|Column::index|ColumnIndex::indexes|PrimitiveFixedWidthEncode', c)]
    rep.cov.setdefault('bounds', {})
    rep.cov['bounds']['storage seek'] = '%d rows per row-set, every partition into <= %d blocks, all i32 keys (sorted, duplicates allowed), all begin keys' % (n_rows, max_blocks)
