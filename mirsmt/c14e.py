"""C14, expression-level arms of Evaluator::eval (engine M).

The kernels of ArrayImpl are decided one by one in c14.py.  `Evaluator::eval` composes them: IS NULL builds its result
from the validity bitmap, IN folds `eq` over the list with `or`.  Here the MIR of Evaluator::eval itself is interpreted
with the cursor on such a node; its children evaluate (by contract) to arbitrary symbolic arrays, and the per-row
result must equal the scalar three-valued definition -- independently of the other rows of the batch."""
import copy, itertools, json, os, time
from z3 import And, Or, Not, BoolVal, is_true, If
from vlib.common import Inconclusive, rl
from . import engine
from .engine import make_vm, check, satisfiable, find_fn
from .vm import Ref, Cell, Enum, SymEnum, BV, Struct, Seq, Bits, Opaque, Unsupported, mk_int
from .mir import MirSyntax
from .natives import crate_contract, dv
from .arrays import sym_array, unpack_array

SQLT = {'Bool': 'BOOLEAN', 'Int16': 'SMALLINT', 'Int32': 'INT', 'Int64': 'BIGINT'}


def tree(variant, kids, list_kids=None):
    """EvalObj positioned on `(variant kid0 kid1 ...)`; kids are arrays (leaves) or ('list', [arrays])."""
    children = {}
    ids = []
    for k, kid in enumerate(kids):
        ids.append(Opaque('id:%d' % k))
        if isinstance(kid, tuple) and kid[0] == 'list':
            sub = {j: Struct('EvalObj', [Enum('Expr', 'ColumnIndex', [Opaque('col')]), a, {}]) for j, a in enumerate(kid[1])}
            children[k] = Struct('EvalObj', [Enum('Expr', 'List', [Seq([Opaque('id:%d' % j) for j in range(len(kid[1]))], 'slice')]), None, sub])
        else:
            children[k] = Struct('EvalObj', [Enum('Expr', 'ColumnIndex', [Opaque('col')]), kid, {}])
    fields = [Seq(ids, 'array')] if len(ids) > 1 else ids
    return Struct('EvalObj', [Enum('Expr', variant, fields), None, children])


def _obj(vm, v):
    v = dv(vm, v)
    while isinstance(v, Ref):
        v = dv(vm, v)
    return v


@crate_contract(r'(^|::)Evaluator::<.*>::next$', 'Evaluator::next(id): the evaluator of the child with that id')
def ev_next(vm, m, callee, args):
    e = _obj(vm, args[0])
    i = dv(vm, args[1])
    if len(e.fields) < 3:        # the aggregate-state harness (one child)
        return Struct('EvalObj', [Enum('Expr', 'ColumnIndex', [Opaque('arg')]), e.fields[1]])
    if not (isinstance(i, Opaque) and i.tag.startswith('id:')):
        raise Unsupported('Evaluator::next of %r' % (i,))
    return e.fields[2][int(i.tag[3:])]


@crate_contract(r'(^|::)Evaluator::<.*>::eval$', 'Evaluator::eval of a child: the (arbitrary) array that child evaluates to on this chunk')
def ev_eval(vm, m, callee, args):
    e = _obj(vm, args[0])
    if e.fields[1] is None:
        raise Unsupported('eval of an inner node')
    return Enum('Result', 'Ok', [copy.deepcopy(e.fields[1])])


@crate_contract(r'(^|::)Evaluator::<.*>::eval_list$', 'Evaluator::eval_list of a list node: the chunk of the arrays its elements evaluate to')
def ev_eval_list(vm, m, callee, args):
    e = _obj(vm, args[0])
    arrs = [copy.deepcopy(e.fields[2][j].fields[1]) for j in sorted(e.fields[2])]
    n = len(unpack_array(vm, arrs[0])[1]) if arrs else 0
    return Enum('Result', 'Ok', [Struct('DataChunk', [Struct('Arc', [Seq(arrs, 'slice')]), mk_int(n, 'usize')])])


def and3(a, b):
    (av, an), (bv_, bn) = a, b
    isf = Or(And(Not(an), Not(av)), And(Not(bn), Not(bv_)))
    n = And(Not(isf), Or(an, bn))
    return And(Not(isf), Not(n)), n


def or3(a, b):
    (av, an), (bv_, bn) = a, b
    ist = Or(And(Not(an), av), And(Not(bn), bv_))
    n = And(Not(ist), Or(an, bn))
    return ist, n


def cases(thorough):
    out = []
    tys = ['Bool', 'Int32', 'Int64'] if thorough else ['Bool', 'Int32']
    for t in tys:
        out.append(('IsNull', (t,), 0))
    for t in (['Int16', 'Int32', 'Int64'] if thorough else ['Int32']):
        for k in ((1, 2, 3) if thorough else (1, 2)):
            out.append(('In', (t,), k))
    if thorough:
        out.append(('In', ('Int32', 'Int64'), 2))    # list elements wider than the probe
    for t in (['Int16', 'Int32', 'Int64'] if thorough else ['Int32']):
        out.append(('If', (t,), 0))      # (the CASE kernel has integer arms only; a BOOLEAN CASE is an error, as under C14)
    return out


def run_case(task):
    node, tys, k, n, mirpath = task
    os.environ['VERIF_MIR_OC'] = mirpath
    res = {'node': node, 'tys': list(tys), 'k': k, 'n': n, 'obligations': [], 'fns': [], 'natives': []}
    t0 = time.time()
    try:
        vm = make_vm(True)
        fname = find_fn(vm.prog, r'^evaluator::<impl at src/executor/evaluator\.rs:\d+:\d+: \d+:\d+>::eval$')
        probe, prow = sym_array('p', tys[0], n)
        if node == 'IsNull':
            obj = tree('IsNull', [probe])
            cand_rows = []
        elif node == 'If':
            cond, crow = sym_array('q', 'Bool', n)
            els, erow = sym_array('e', tys[0], n)
            obj = tree('If', [cond, probe, els])
            cand_rows = [crow, erow]
        else:
            cands = []
            cand_rows = []
            for j in range(k):
                a, r = sym_array('c%d' % j, tys[-1] if len(tys) > 1 else tys[0], n)
                cands.append(a)
                cand_rows.append(r)
            obj = tree('In', [probe, ('list', cands)])
        chunk = Struct('Chunk', [n])
        outs = vm.run(fname, [Ref(Cell(obj)), Ref(Cell(chunk))])
        res['fns'] = sorted(vm.trace_fns)
        res['natives'] = sorted(vm.used_natives)
    except (Unsupported, MirSyntax, KeyError, Inconclusive, AttributeError, IndexError) as ex:
        res['inconclusive'] = '%s: %s' % (type(ex).__name__, str(ex)[:300])
        return res
    for o in outs:
        if o.kind != 'ret' or not (isinstance(o.value, Enum) and o.value.variant == 'Ok'):
            st, m = satisfiable(list(o.pc))
            if st != 'unsat':
                res['obligations'].append({'kind': 'fails', 'verdict': st, 'witness': witness(m, prow, cand_rows) if m is not None else None, 'expected': 'a value per row'})
            continue
        try:
            variant, rows = unpack_array(vm, o.value.fields[0])
        except (AttributeError, IndexError) as ex:
            res['inconclusive'] = 'result is not an array: %r' % (o.value,)
            return res
        want_variant = tys[0] if node == 'If' else 'Bool'
        if variant != want_variant or len(rows) != n:
            res['obligations'].append({'kind': 'shape', 'verdict': 'sat', 'witness': None, 'expected': '%d %s rows' % (n, want_variant)})
            continue
        claims = []
        for i in range(n):
            raw, valid = rows[i]
            pr, pv = prow[i]
            if node == 'IsNull':
                claims.append(And(valid, raw == Not(pv)))
            elif node == 'If':
                # CASE WHEN q THEN p ELSE e END: a NULL condition takes the ELSE branch
                (qr, qv), (er, ev) = cand_rows[0][i], cand_rows[1][i]
                take = And(qv, qr)
                claims.append(And(valid == If(take, pv, ev), Or(Not(valid), raw == If(take, pr, er))))
            else:
                acc = None
                for r in cand_rows:
                    cr, cv = r[i]
                    # scalar `p = c`: NULL if either is NULL, else equality of the values (widened when the widths differ)
                    if hasattr(pr, 'size') and hasattr(cr, 'size') and pr.size() != cr.size():
                        from z3 import SignExt
                        w = max(pr.size(), cr.size())
                        a_ = SignExt(w - pr.size(), pr) if pr.size() < w else pr
                        b_ = SignExt(w - cr.size(), cr) if cr.size() < w else cr
                        eqv = a_ == b_
                    else:
                        eqv = pr == cr
                    e = (eqv, Or(Not(pv), Not(cv)))
                    acc = e if acc is None else or3(acc, e)
                t, nul = acc
                claims.append(And(valid == Not(nul), Or(nul, raw == t)))
        st, m = check(list(o.pc), And(claims))
        ob = {'kind': 'row-value', 'verdict': st}
        if m is not None:
            ob['witness'] = witness(m, prow, cand_rows)
            ob['engine_model'] = [[bool(is_true(m.eval(r, model_completion=True))) if is_true(m.eval(v, model_completion=True)) else None] for r, v in rows]
        res['obligations'].append(ob)
    res['solver_s'] = time.time() - t0
    return res


def witness(m, prow, cand_rows):
    def cell(r, v):
        if not is_true(m.eval(v, model_completion=True)):
            return None
        x = m.eval(r, model_completion=True)
        if hasattr(x, 'as_long'):
            u = x.as_long()
            return u - (1 << x.size()) if u >= 1 << (x.size() - 1) else u
        return bool(is_true(x))
    return {'probe': [cell(r, v) for r, v in prow], 'candidates': [[cell(r, v) for r, v in rows] for rows in cand_rows]}


def replay(node, tys, w):
    """The expression through the real executor on a table holding the witness batch."""
    n = len(w['probe'])
    k = len(w['candidates'])
    pt = SQLT[tys[0]]
    ct = SQLT[tys[-1]]
    cols = ['p %s' % pt] + ['c%d %s' % (j, ct) for j in range(k)]
    lit = lambda x: 'NULL' if x is None else (('true' if x else 'false') if isinstance(x, bool) else str(x))
    setup = ['create table r(%s)' % ', '.join(cols)]
    for i in range(n):
        setup.append('insert into r values (%s)' % ', '.join([lit(w['probe'][i])] + [lit(c[i]) for c in w['candidates']]))
    if node == 'If':
        return replay_if(tys, w)
    expr = '(isnull $0.0)' if node == 'IsNull' else '(in $0.0 (list %s))' % ' '.join('$0.%d' % (j + 1) for j in range(k))
    plan = '(proj (list %s) (scan $0 (list %s) true))' % (expr, ' '.join('$0.%d' % j for j in range(k + 1)))
    out, rc, err = rl('planrun', {'setup': setup, 'plans': [plan]})
    res = [o for o in out if 'plan' in o]
    how = {'setup': setup, 'plan': plan}
    if not res or not res[0].get('ok') or res[0].get('panicked'):
        how['engine'] = 'FAILS: %s' % ((res[0].get('err') if res else err[-200:]) or 'panic')
        return {'reproduced': None, 'how': how}
    got = [r[0] for r in res[0]['rows']]
    # scalar reference
    exp = []
    for i in range(n):
        p = w['probe'][i]
        if node == 'IsNull':
            exp.append('true' if p is None else 'false')
            continue
        vals = [c[i] for c in w['candidates']]
        if p is None:
            exp.append(None)
        elif any(v is not None and v == p for v in vals):
            exp.append('true')
        elif any(v is None for v in vals):
            exp.append(None)
        else:
            exp.append('false')
    how['engine'], how['expected'] = got, exp
    return {'reproduced': got != exp, 'how': how}


def replay_if(tys, w):
    n = len(w['probe'])
    t = SQLT[tys[0]]
    lit = lambda x: 'NULL' if x is None else (('true' if x else 'false') if isinstance(x, bool) else str(x))
    setup = ['create table r(q boolean, p %s, e %s)' % (t, t)]
    for i in range(n):
        setup.append('insert into r values (%s, %s, %s)' % (lit(w['candidates'][0][i]), lit(w['probe'][i]), lit(w['candidates'][1][i])))
    plan = '(proj (list (if $0.0 $0.1 $0.2)) (scan $0 (list $0.0 $0.1 $0.2) true))'
    out, rc, err = rl('planrun', {'setup': setup, 'plans': [plan]})
    res = [o for o in out if 'plan' in o]
    how = {'setup': setup, 'plan': plan}
    if not res or not res[0].get('ok') or res[0].get('panicked'):
        how['engine'] = 'FAILS: %s' % ((res[0].get('err') if res else err[-200:]) or 'panic')
        return {'reproduced': None, 'how': how}
    got = [r[0] for r in res[0]['rows']]
    exp = []
    for i in range(n):
        q = w['candidates'][0][i]
        v = w['probe'][i] if q is True else w['candidates'][1][i]
        exp.append(None if v is None else (('true' if v else 'false') if isinstance(v, bool) else str(v)))
    how['engine'], how['expected'] = got, exp
    return {'reproduced': got != exp, 'how': how}
