"""Symbolic interpreter for the MIR of loop-bounded functions: concrete structure (lengths, enum variants, iterator
positions), symbolic scalars.  Branches on symbolic conditions fork the whole machine; assertion failures become panic
outcomes.  Calls resolve to MIR bodies of the crate, or to *natives* (models of std / bitvec / collection primitives,
listed in NATIVE_DOC and reported in the evidence's trusted base)."""
import copy, re
from z3 import (BitVec, BitVecVal, BitVecRef, BoolRef, BoolVal, Bool, And, Or, Not, If, is_true, is_false, simplify, Extract, SignExt,
                ZeroExt, ULT, ULE, UGT, UGE, BVAddNoOverflow, BVAddNoUnderflow, BVSubNoOverflow, BVSubNoUnderflow, BVMulNoOverflow,
                BVMulNoUnderflow, BVSDivNoOverflow, SRem, UDiv, URem, LShR, Solver, sat, unsat, is_bv, is_bool)
from .mir import split_top, match_paren, MirSyntax


class Unsupported(Exception):
    """The function leaves the interpreter's vocabulary: the obligation is inconclusive."""


# ------------------------------------------------------------------------------------------------ values
class BV:
    __slots__ = ('v', 'signed')

    def __init__(self, v, signed):
        self.v, self.signed = v, signed

    def width(self):
        return self.v.size()

    def __repr__(self):
        return 'BV(%s,%s%d)' % (self.v, 'i' if self.signed else 'u', self.v.size())


class FP:
    """An f64 value (z3 Float64 term).  All NaNs are one value, as in the SMT-LIB theory."""
    __slots__ = ('v',)

    def __init__(self, v):
        self.v = v

    def __repr__(self):
        return 'FP(%s)' % (self.v,)


def fp_const(x):
    from z3 import FPVal, Float64
    return FP(FPVal(x, Float64()))


def fp_binop(op, x, y):
    """MIR binary operators on f64 operands (IEEE 754, round to nearest even)."""
    from z3 import fpAdd, fpSub, fpMul, fpDiv, fpEQ, fpLT, fpLEQ, fpGT, fpGEQ, RNE
    if op in ('Add', 'Sub', 'Mul', 'Div'):
        return FP({'Add': fpAdd, 'Sub': fpSub, 'Mul': fpMul, 'Div': fpDiv}[op](RNE(), x, y))
    if op == 'Rem':
        return FP(fp_fmod(x, y))
    if op == 'Eq':
        return fpEQ(x, y)
    if op == 'Ne':
        return Not(fpEQ(x, y))
    if op in ('Lt', 'Le', 'Gt', 'Ge'):
        return {'Lt': fpLT, 'Le': fpLEQ, 'Gt': fpGT, 'Ge': fpGEQ}[op](x, y)
    raise Unsupported('float binop ' + op)


def fp_fmod(x, y):
    """Rust's `%` on floats is C fmod (remainder of truncated division); z3's fpRem is the IEEE remainder, a different
    function, so fmod stays uninterpreted (the same symbol on the reference side)."""
    from z3 import Function, Float64
    return Function('fmod_f64', Float64(), Float64(), Float64())(x, y)


class Unit:
    def __repr__(self):
        return '()'


UNIT = Unit()


class Tup:
    def __init__(self, items):
        self.items = list(items)

    def __repr__(self):
        return 'Tup%r' % (self.items,)


class Struct:
    def __init__(self, name, fields):
        self.name, self.fields = name, list(fields)

    def __repr__(self):
        return '%s{%r}' % (self.name, self.fields)


class Coroutine(Struct):
    """The state object of an `async fn` body: captured arguments as fields plus the resume state (0 = not started)."""

    def __init__(self, name, fields, state=0):
        Struct.__init__(self, name, fields)
        self.state = state

    def __repr__(self):
        return 'Coroutine(%s,state=%d)' % (self.name, self.state)


class Enum:
    def __init__(self, ty, variant, fields=()):
        self.ty, self.variant, self.fields = ty, variant, list(fields)

    def __repr__(self):
        return '%s::%s%r' % (self.ty, self.variant, tuple(self.fields))


class SymEnum:
    """An enum whose variant depends on symbolic conditions: [(cond, Enum), ...] (conditions exhaustive, exclusive)."""

    def __init__(self, ty, alts):
        self.ty, self.alts = ty, alts

    def __repr__(self):
        return 'SymEnum(%s,%r)' % (self.ty, self.alts)


class Cell:
    __slots__ = ('v',)

    def __init__(self, v=None):
        self.v = v


class Ref:
    """Pointer to a place: a cell plus a projection path of ('field', k) / ('index', i) / ('deref',) steps."""
    __slots__ = ('cell', 'path')

    def __init__(self, cell, path=()):
        self.cell, self.path = cell, tuple(path)

    def __repr__(self):
        return 'Ref(%r%s)' % (self.cell.v, ''.join('.%s' % (p,) for p in self.path))


class Seq:
    """Vec<T> / Box<[T]> / [T]: concrete length, symbolic items."""

    def __init__(self, items, kind='vec'):
        self.items, self.kind = list(items), kind

    def __repr__(self):
        return 'Seq%r' % (self.items,)


class Bits:
    """bitvec::vec::BitVec: concrete length, symbolic bits (z3 Bool each)."""

    def __init__(self, bits):
        self.bits = list(bits)

    def __repr__(self):
        return 'Bits%r' % (self.bits,)


class Str:
    def __init__(self, s):
        self.s = s

    def __repr__(self):
        return 'Str(%r)' % self.s


class Closure:
    def __init__(self, span, captures=(), owner=None, tybind=None):
        self.span, self.captures, self.owner, self.tybind = span, list(captures), owner, dict(tybind or {})

    def __repr__(self):
        return 'Closure(%s)' % self.span


class FnItem:
    """A named function used as a value (`unary_op(a, negate::<i64>)`): called like a closure without captures."""

    def __init__(self, text, owner=None, tybind=None):
        self.text, self.owner, self.tybind = text, owner, dict(tybind or {})

    def __repr__(self):
        return 'FnItem(%s)' % self.text


class Opaque:
    """A value the interpreter carries but never inspects (formatted messages, type descriptors...)."""

    def __init__(self, tag, data=None):
        self.tag, self.data = tag, data

    def __repr__(self):
        return 'Opaque(%s)' % self.tag


class Iter:
    """Iterator objects (slice iter, zip, map, enumerate, rev, flatten, cloned...). kind + concrete cursor."""

    def __init__(self, kind, **kw):
        self.kind = kind
        self.__dict__.update(kw)

    def __repr__(self):
        return 'Iter(%s)' % self.kind


def bool_(x):
    if isinstance(x, bool):
        return BoolVal(x)
    return x


def is_concrete_bool(b):
    b = simplify(b) if not isinstance(b, bool) else b
    if isinstance(b, bool):
        return b
    if is_true(b):
        return True
    if is_false(b):
        return False
    return None


INT_TYPES = {'i8': (8, True), 'i16': (16, True), 'i32': (32, True), 'i64': (64, True), 'i128': (128, True), 'isize': (64, True),
             'u8': (8, False), 'u16': (16, False), 'u32': (32, False), 'u64': (64, False), 'u128': (128, False), 'usize': (64, False)}


def mk_int(val, ty):
    w, s = INT_TYPES[ty]
    return BV(BitVecVal(val, w), s)


def concrete_int(x):
    """Python int of a BV if it is a constant, else None."""
    v = simplify(x.v)
    try:
        n = v.as_long()
    except (AttributeError, Exception):
        return None
    if x.signed and n >= 1 << (x.v.size() - 1):
        n -= 1 << x.v.size()
    return n


# ------------------------------------------------------------------------------------------------ machine
class Frame:
    def __init__(self, func, args):
        self.func = func
        self.env = {}
        for (p, _), a in zip(func.params, args):
            self.env[p] = Cell(a)
        self.bb = 'bb0'
        self.i = 0
        self.dst = None
        self.retbb = None

    def cell(self, local):
        c = self.env.get(local)
        if c is None:
            c = self.env[local] = Cell(None)
        return c


class Machine:
    def __init__(self):
        self.frames = []
        self.pc = []          # path condition (list of z3 Bool)
        self.result = None    # ('ret', value) | ('panic', msg)
        self.steps = 0
        self.root_args = None

    def fork(self, cond):
        m = copy.deepcopy(self)
        m.pc.append(cond)
        return m


class Outcome:
    def __init__(self, pc, kind, value, args=None):
        self.pc, self.kind, self.value, self.args = pc, kind, value, args

    def __repr__(self):
        return 'Outcome(%s, %r)' % (self.kind, self.value)


class NativeFork(Exception):
    """Raised by a native to split the machine: alts = [(cond, thunk)]; thunk(machine) -> value, run in the fork."""

    def __init__(self, alts):
        self.alts = alts


class NativePanic(Exception):
    def __init__(self, msg):
        self.msg = msg


class VM:
    MAX_STEPS = 200000

    def __init__(self, prog, natives, enums, overflow_checks=True, check_feasible=True):
        self.prog = prog
        self.natives = natives        # list of (regex, handler)
        self.enums = enums            # {enum type tail name: [variant names in discriminant order]}
        self.oc = overflow_checks
        self.check_feasible = check_feasible
        self.func_cache = {}
        self.closure_index = None
        self.resolved = {}
        self.trace_fns = set()
        self.used_natives = set()
        self._gn_cache = {}
        self._assoc_cache = {}
        self._src = None

    # -------------------------------------------------------------------------------- entry points
    def run(self, fname, args, pc=(), tybind=None):
        """Run function to completion over all paths. Returns list of Outcome."""
        m = Machine()
        m.pc = list(pc)
        m.frames.append(Frame(self.get_func(fname), args))
        m.frames[-1].tybind = dict(tybind or {})
        m.root_args = args        # forks deep-copy the machine: each outcome sees its own copy of by-reference arguments
        return self.run_machine(m)

    def run_machine(self, m0):
        work, done = [m0], []
        while work:
            m = work.pop()
            try:
                while m.result is None:
                    m.steps += 1
                    if m.steps > self.MAX_STEPS:
                        raise Unsupported('step limit (unbounded loop?) in ' + m.frames[-1].func.name)
                    forks = self.step(m)
                    if forks is not None:
                        for f in forks:
                            if self.feasible(f.pc):
                                work.append(f)
                        m = None
                        break
                if m is not None:
                    done.append(Outcome(m.pc, m.result[0], m.result[1], getattr(m, 'root_args', None)))
            except NativePanic as ex:
                done.append(Outcome(m.pc, 'panic', ex.msg, getattr(m, 'root_args', None)))
        return done

    def feasible(self, pc):
        if not self.check_feasible or not pc:
            return True
        s = Solver()
        s.set('timeout', 5000)
        s.add(pc)
        return s.check() != unsat

    def get_func(self, name):
        if name not in self.func_cache:
            self.func_cache[name] = self.prog.get(name)
            self.trace_fns.add(name)
        return self.func_cache[name]

    # -------------------------------------------------------------------------------- stepping
    def step(self, m):
        fr = m.frames[-1]
        stmts = fr.func.blocks.get(fr.bb)
        if stmts is None:
            raise MirSyntax('no block %s in %s' % (fr.bb, fr.func.name))
        s = stmts[fr.i]
        if fr.i < len(stmts) - 1:
            fr.i += 1
            return self.exec_stmt(m, fr, s)
        return self.exec_term(m, fr, s)

    def goto(self, fr, bb):
        fr.bb, fr.i = bb, 0

    def exec_stmt(self, m, fr, s):
        if s.startswith(('StorageLive', 'StorageDead', 'nop', 'FakeRead', 'PlaceMention', 'AscribeUserType', 'Retag', 'Coverage', 'ConstEvalCounter')):
            return None
        mm = re.match(r'discriminant\((.+)\) = (\d+)$', s)
        if mm:
            v = self.read(m, fr, mm.group(1))
            if isinstance(v, Ref):
                v = self._get(v.cell, v.path)
            if isinstance(v, Coroutine):
                v.state = int(mm.group(2))
                return None
            raise Unsupported('SetDiscriminant')
        if s.startswith('Deinit('):
            return None
        k = self._assign_split(s)
        if k is None:
            raise MirSyntax('statement: ' + s)
        dst, rv = k
        res = self.rvalue(m, fr, rv)
        if isinstance(res, list):      # forks: [(machine, value)] produced by reading a symbolic discriminant
            out = []
            for m2, val in res:
                fr2 = m2.frames[-1]
                self.write(m2, fr2, dst, val)
                out.append(m2)
            return out
        self.write(m, fr, dst, res)
        return None

    @staticmethod
    def _assign_split(s):
        depth = 0
        for i, c in enumerate(s):
            if c in '([{':
                depth += 1
            elif c in ')]}':
                depth -= 1
            elif c == '=' and depth == 0 and s[i - 1] == ' ' and s[i + 1:i + 2] == ' ':
                return s[:i].strip(), s[i + 1:].strip()
        return None

    def exec_term(self, m, fr, s):
        if s == 'return':
            val = fr.cell('_0').v
            m.frames.pop()
            if not m.frames:
                m.result = ('ret', val)
                return None
            caller = m.frames[-1]
            self.write(m, caller, fr.dst, val if val is not None else UNIT)
            self.goto(caller, fr.retbb)
            return None
        mm = re.match(r'goto -> (bb\d+)$', s)
        if mm:
            self.goto(fr, mm.group(1))
            return None
        if s == 'unreachable':
            raise NativePanic('entered unreachable code in ' + fr.func.name)
        if s == 'resume' or s.startswith('unwind'):
            raise NativePanic('unwinding')
        mm = re.match(r'drop\((.+)\) -> \[return: (bb\d+)', s)
        if mm:
            self.goto(fr, mm.group(2))
            return None
        mm = re.match(r'switchInt\((.+)\) -> \[(.*)\]$', s)
        if mm:
            return self.switch(m, fr, mm.group(1), mm.group(2))
        mm = re.match(r'assert\((.+?), "(.*?)"(.*)\) -> \[success: (bb\d+)', s)
        if mm:
            return self.do_assert(m, fr, mm.group(1), mm.group(2), mm.group(4))
        k = self._assign_split(s)
        if k is not None and '->' in k[1]:
            return self.call(m, fr, k[0], k[1])
        if '->' in s and '(' in s:     # call without destination (diverging)
            return self.call(m, fr, None, s)
        raise MirSyntax('terminator: ' + s)

    def switch(self, m, fr, opnd, arms):
        v = self.operand(m, fr, opnd)
        targets = []
        for arm in arms.split(', '):
            k, t = arm.split(': ')
            targets.append((None if k == 'otherwise' else int(k), t))
        if isinstance(v, BV):
            n = concrete_int(v)
            if n is not None:
                w = v.width()
                for k, t in targets:
                    if k is not None and (k == n or (k - (1 << w)) == n or k == n + (1 << w)):
                        self.goto(fr, t)
                        return None
                self.goto(fr, [t for k, t in targets if k is None][0])
                return None
            forks, rest = [], []
            for k, t in targets:
                if k is None:
                    c = And(rest) if rest else BoolVal(True)
                else:
                    c = v.v == BitVecVal(k, v.width())
                    rest.append(Not(c))
                f = m.fork(c)
                self.goto(f.frames[-1], t)
                forks.append(f)
            return forks
        # booleans
        b = is_concrete_bool(bool_(v))
        zero_t = [t for k, t in targets if k == 0]
        other_t = [t for k, t in targets if k is None] or [t for k, t in targets if k == 1]
        if b is not None:
            self.goto(fr, (other_t if b else zero_t)[0] if (other_t if b else zero_t) else [t for k, t in targets if k == (1 if b else 0)][0])
            return None
        f1, f0 = m.fork(bool_(v)), m.fork(Not(bool_(v)))
        t_true = other_t[0] if other_t else [t for k, t in targets if k == 1][0]
        t_false = zero_t[0] if zero_t else [t for k, t in targets if k is None][0]
        self.goto(f1.frames[-1], t_true)
        self.goto(f0.frames[-1], t_false)
        return [f1, f0]

    def do_assert(self, m, fr, cond, msg, succ):
        neg = cond.startswith('!')
        v = bool_(self.operand(m, fr, cond[1:] if neg else cond))
        ok = Not(v) if neg else v
        c = is_concrete_bool(ok)
        if c is True:
            self.goto(fr, succ)
            return None
        if c is False:
            raise NativePanic('assertion failed: ' + msg)
        good, bad = m.fork(ok), m.fork(Not(ok))
        self.goto(good.frames[-1], succ)
        bad.result = ('panic', 'assertion failed: ' + msg)
        bad.frames = []
        return [good, bad]

    # -------------------------------------------------------------------------------- places
    def parse_place(self, p):
        """Returns (local, [projection steps]) for a place expression."""
        p = p.strip()
        steps = []
        while True:
            p = p.strip()
            if re.fullmatch(r'_\d+', p):
                return p, list(reversed(steps))
            if p.startswith('(*') and p.endswith(')') and match_paren(p, 0) == len(p) - 1:
                steps.append(('deref',))
                p = p[2:-1]
                continue
            m = re.fullmatch(r'\((.+)\.(\d+): (.+)\)', p, re.S)
            if p.startswith('(') and match_paren(p, 0) == len(p) - 1 and m:
                # field projection: (BASE.k: TYPE) -- find the split '.k: ' at depth 0 from the right
                inner = p[1:-1]
                idx = self._field_split(inner)
                if idx is not None:
                    base, k = inner[:idx[0]], idx[1]
                    steps.append(('field', k))
                    p = base
                    continue
            m = re.fullmatch(r'\((.+) as (variant#\d+|[A-Za-z_]\w*)\)', p, re.S)
            if m and match_paren(p, 0) == len(p) - 1:
                steps.append(('downcast', m.group(2)))
                p = m.group(1)
                continue
            m = re.fullmatch(r'(.+)\[(_\d+|\d+ of \d+|-?\d+)\]', p, re.S)
            if m:
                steps.append(('index', m.group(2)))
                p = m.group(1)
                continue
            raise MirSyntax('place: ' + p)

    @staticmethod
    def _field_split(inner):
        # inner = "BASE.k: TYPE"; BASE may itself contain dots/colons inside parentheses
        depth = 0
        best = None
        i = 0
        while i < len(inner):
            c = inner[i]
            if c in '([{<':
                if c != '<' or inner[i + 1:i + 2] not in (' ', '='):
                    depth += 1
            elif c in ')]}>':
                if c != '>' or inner[i - 1] not in '-=':
                    depth = max(0, depth - 1)
            elif c == '.' and depth == 0:
                m = re.match(r'\.(\d+): ', inner[i:])
                if m:
                    best = (i, int(m.group(1)))
                    break
            i += 1
        return best

    def resolve(self, m, fr, p):
        """Place -> (cell, path) with derefs followed."""
        local, steps = self.parse_place(p)
        cell, path = fr.cell(local), []
        for st in steps:
            if st[0] == 'deref':
                v = self._get(cell, path)
                v = self._auto(v)
                if isinstance(v, Ref):
                    cell, path = v.cell, list(v.path)
                elif isinstance(v, Struct) and v.name in ('Arc', 'Box'):
                    path = path + [('field', 0)]
                elif isinstance(v, (Seq, Bits)):
                    pass      # Box<[T]> / raw slice pointers are transparent: the holder *is* the pointee
                else:
                    raise Unsupported('deref of %r' % (v,))
            elif st[0] == 'field':
                path = path + [('field', st[1])]
            elif st[0] == 'downcast':
                path = path + [('downcast', st[1])]
            elif st[0] == 'index':
                ix = st[1]
                if ix.startswith('_'):
                    iv = fr.cell(ix).v
                    n = concrete_int(iv)
                    if n is None:
                        path = path + [('symindex', iv)]      # readable when the elements are integers (see _proj)
                    else:
                        path = path + [('index', n)]
                else:
                    path = path + [('index', int(ix.split(' ')[0]))]
        return cell, path

    @staticmethod
    def _auto(v):
        return v

    def _get(self, cell, path):
        v = cell.v
        for st in path:
            v = self._proj(v, st)
        return v

    def _proj(self, v, st):
        if st[0] == 'field':
            k = st[1]
            if isinstance(v, Tup):
                return v.items[k]
            if isinstance(v, (Struct, Enum)):
                return v.fields[k]
            if isinstance(v, Closure):
                return v.captures[k]
            if isinstance(v, (Seq, Bits)):
                return v      # Box -> Unique -> NonNull -> pointer: all the same object here
            raise Unsupported('field %d of %r' % (k, v))
        if st[0] == 'downcast':
            if isinstance(v, Enum):
                return v
            if isinstance(v, SymEnum):
                raise Unsupported('downcast of a symbolic enum (discriminant not read first)')
            raise Unsupported('downcast of %r' % (v,))
        if st[0] == 'symindex':
            # a read at a symbolic position of a sequence of integers: an if-then-else chain over the elements (MIR asserts
            # the index is in bounds before the access)
            items = v.items if isinstance(v, (Seq, Tup)) else None
            if not items or not all(isinstance(x, BV) and x.width() == items[0].width() for x in items):
                raise Unsupported('symbolic index into %r' % (v,))
            ix = st[1].v
            acc = items[-1].v
            for k in range(len(items) - 2, -1, -1):
                acc = If(ix == BitVecVal(k, ix.size()), items[k].v, acc)
            return BV(acc, items[0].signed)
        if st[0] == 'index':
            if isinstance(v, Seq):
                return v.items[st[1]]
            if isinstance(v, Tup):
                return v.items[st[1]]
            raise Unsupported('index of %r' % (v,))
        raise Unsupported('projection %r' % (st,))

    def read(self, m, fr, p):
        cell, path = self.resolve(m, fr, p)
        return self._get(cell, path)

    def write(self, m, fr, p, val):
        if p is None:
            return
        cell, path = self.resolve(m, fr, p)
        self._set(cell, path, val)

    def _set(self, cell, path, val):
        if not path:
            cell.v = val
            return
        v = cell.v
        for st in path[:-1]:
            v = self._proj(v, st)
        st = path[-1]
        if st[0] == 'field':
            if isinstance(v, Tup):
                v.items[st[1]] = val
            elif isinstance(v, (Struct, Enum)):
                v.fields[st[1]] = val
            else:
                raise Unsupported('field write into %r' % (v,))
        elif st[0] == 'index':
            v.items[st[1]] = val
        elif st[0] == 'downcast':
            raise Unsupported('write through downcast')
        else:
            raise Unsupported('write through %s' % st[0])

    # -------------------------------------------------------------------------------- operands and rvalues
    def operand(self, m, fr, o):
        o = o.strip()
        if o.startswith('copy '):
            return self._copy(self.read(m, fr, o[5:]))
        if o.startswith('move '):
            return self.read(m, fr, o[5:])
        if o.startswith('const '):
            return self.const(o[6:], fr)
        if re.match(r'[A-Za-z][\w]*(::[A-Za-z_<][^ ]*)?(::<.*>)?$', o) and not re.match(r'_\d+', o) and self.fn_item_name(o, fr) is not None:
            return FnItem(o, fr.func.name, getattr(fr, 'tybind', None))
        return self.read(m, fr, o)

    def fn_item_name(self, text, fr=None):
        """The crate function a function-item operand names: exact path, a function nested in the current one, or a unique tail."""
        base = re.sub(r'::<.*>$', '', text)
        if base in self.prog.funcs:
            return base
        if fr is not None:
            nested = re.sub(r'@@\d+$', '', fr.func.name) + '::' + base.split('::')[-1]
            if nested in self.prog.funcs:
                return nested
        c = self.prog.by_tail.get(base.split('::')[-1], [])
        c = [n for n in c if n.endswith(base) or n.split('::')[-1] == base]
        return c[0] if len(c) == 1 else None

    @staticmethod
    def _copy(v):
        return v

    def const(self, c, fr=None):
        c = c.strip()
        if c in ('true', 'false'):
            return BoolVal(c == 'true')
        m = re.fullmatch(r'(-?\d+)_([iu](?:8|16|32|64|128|size))', c)
        if m:
            return mk_int(int(m.group(1)), m.group(2))
        if c.startswith('"'):
            return Str(c[1:c.rindex('"')])
        m = re.match(r'ZeroSized: (\{closure@[^}]*\})', c)
        if m:
            return Closure(m.group(1), (), fr.func.name if fr is not None else None, getattr(fr, 'tybind', None))
        if c.startswith('ZeroSized: ') or c == '()':
            return Opaque('zst:' + c[11:])
        m = re.fullmatch(r"'(.)'", c)
        if m:
            return BV(BitVecVal(ord(m.group(1)), 32), False)
        mf = re.fullmatch(r'(-?(?:\d+(?:\.\d+)?(?:[eE][-+]?\d+)?|inf|NaN))_?f64', c)
        if mf:
            return fp_const(float(mf.group(1)))
        if re.fullmatch(r'-?\d+(\.\d+)?(f32|f64)', c) or 'f64' in c:
            return Opaque('float:' + c)
        m = re.fullmatch(r'(?:core::num::<impl )?([iu](?:8|16|32|64|128|size))>?::(MIN|MAX)', c)
        if m:
            w, sg = INT_TYPES[m.group(1)]
            val = (-(1 << (w - 1)) if sg else 0) if m.group(2) == 'MIN' else ((1 << (w - 1)) - 1 if sg else (1 << w) - 1)
            return mk_int(val, m.group(1))
        consts = getattr(self.prog, 'consts', {})
        if c in consts:
            return self.eval_promoted(c)          # a module-level constant with a body of its own
        if re.search(r'::[A-Z][A-Z0-9_]*$', c):
            hit = [k for k in consts if c.endswith('::' + k) or c == k]
            if len(hit) == 1:
                return self.eval_promoted(hit[0])
        m = re.match(r'(\w[\w:<>, ]*)::(\w+)$', c)
        if m:
            return Enum(m.group(1).split('::')[-1], m.group(2))
        pm = re.search(r'::(promoted\[\d+\]|[A-Z][A-Z0-9_]*)$', c)
        if pm and fr is not None:
            name = re.sub(r'@@\d+$', '', fr.func.name) + '::' + pm.group(1)
            if name in getattr(self.prog, 'consts', {}):
                return self.eval_promoted(name)
        return Opaque('const:' + c)

    def eval_promoted(self, name):
        """A promoted constant is a parameterless body: interpret it once and share the value."""
        cache = self.__dict__.setdefault('_promoted', {})
        if name not in cache:
            m = Machine()
            m.frames.append(Frame(self.prog.get_const(name), []))
            m.frames[-1].tybind = {}
            outs = self.run_machine(m)
            if len(outs) != 1 or outs[0].kind != 'ret':
                raise Unsupported('promoted constant ' + name)
            cache[name] = outs[0].value
            self.trace_fns.add(name)
        return cache[name]

    def rvalue(self, m, fr, rv):
        rv = rv.strip()
        is_cast = re.search(r' as .+ \((IntToInt|IntToFloat|FloatToInt|FloatToFloat|Transmute|PtrToPtr|FnPtrToPtr|Subtype|PointerCoercion\([^)]*\)|PointerExposeProvenance|PointerWithExposedProvenance)\)$', rv, re.S)
        if rv.startswith(('copy ', 'move ', 'const ')) and not is_cast:
            return self.operand(m, fr, rv)
        if rv.startswith('deref_copy '):
            return self.read(m, fr, rv[11:])
        if rv.startswith('&raw '):
            rv = '&' + rv.split(' ', 2)[2]
        if rv.startswith('&'):
            p = rv[1:].strip()
            if p.startswith('mut '):
                p = p[4:]
            if p.startswith("'") or p.startswith('fake'):
                p = p.split(' ', 1)[1]
            cell, path = self.resolve(m, fr, p)
            return Ref(cell, path)
        mm = re.fullmatch(r'discriminant\((.+)\)', rv)
        if mm:
            return self.discriminant(m, fr, mm.group(1))
        mm = re.fullmatch(r'(\w+)\((.*)\)', rv, re.S)
        if mm and mm.group(1) in BINOPS:
            a, b = [self.operand(m, fr, x) for x in split_top(mm.group(2))]
            return self.binop(mm.group(1), a, b)
        if mm and mm.group(1) in ('Not', 'Neg'):
            a = self.operand(m, fr, mm.group(2))
            if mm.group(1) == 'Not':
                return BV(~a.v, a.signed) if isinstance(a, BV) else Not(bool_(a))
            if isinstance(a, FP):
                from z3 import fpNeg
                return FP(fpNeg(a.v))
            return BV(-a.v, a.signed)
        if mm and mm.group(1) in ('Len', 'PtrMetadata'):
            v = self.read(m, fr, mm.group(2)) if not mm.group(2).startswith(('copy', 'move')) else self.operand(m, fr, mm.group(2))
            v = self.deref_value(v)
            if isinstance(v, Seq):
                return mk_int(len(v.items), 'usize')
            raise Unsupported('Len of %r' % (v,))
        # cast: OPERAND as TYPE (Kind)
        mm = re.fullmatch(r'(.+) as (.+?) \((\w+(?:\([^)]*\))?)\)', rv, re.S) if is_cast else None
        if mm:
            return self.cast(self.operand(m, fr, mm.group(1)), mm.group(2), mm.group(3))
        # tuple aggregate
        if rv.startswith('(') and match_paren(rv, 0) == len(rv) - 1:
            inner = rv[1:-1].strip()
            if inner == '':
                return UNIT
            parts = split_top(inner)
            if len(parts) == 1 and not inner.endswith(','):
                return self.operand(m, fr, parts[0])
            return Tup([self.operand(m, fr, x) for x in parts])
        if rv.startswith('[') and rv.endswith(']'):
            inner = rv[1:-1]
            if ';' in inner and not split_top(inner)[1:]:
                raise Unsupported('array repeat')
            return Seq([self.operand(m, fr, x) for x in split_top(inner)], 'array')
        # closure aggregate: {closure@span} or {closure@span}(captures)? rustc prints `{closure@...}` only for ZSTs as const
        mm = re.match(r'(\{closure@[^}]*\})(?: \{(.*)\})?$', rv, re.S)
        if mm:
            caps = []
            if mm.group(2):
                for f in split_top(mm.group(2)):
                    caps.append(self.operand(m, fr, f.split(': ', 1)[1]))
            return Closure(mm.group(1), caps, fr.func.name, getattr(fr, 'tybind', None))
        # ADT aggregates: Path::<..>::Variant(args) | Path { f: v, .. } | Path::Variant
        if rv.endswith(')') and not rv.startswith('<'):
            # ADT aggregate Path::<..>::Variant(args): the argument list is the parenthesis group that closes last
            depth, j = 0, len(rv) - 1
            while j >= 0:
                c = rv[j]
                if c in ')]}':
                    depth += 1
                elif c in '([{':
                    depth -= 1
                    if depth == 0:
                        break
                j -= 1
            if j > 0:
                path, inner = rv[:j], rv[j + 1:-1]
                args = [self.operand(m, fr, x) for x in split_top(inner)] if inner.strip() else []
                return self.adt(path, args)
        mm = re.fullmatch(r'([\w:<>, &\'\[\]]+?) \{(.*)\}', rv, re.S)
        if mm:
            fields = []
            for f in split_top(mm.group(2)):
                fields.append(self.operand(m, fr, f.split(': ', 1)[1]))
            return Struct(self.type_tail(mm.group(1)), fields)
        if re.fullmatch(r'.*::[A-Z]\w*', rv, re.S) and '(' not in rv.split('::')[-1]:
            return self.adt(rv, [])
        raise MirSyntax('rvalue: ' + rv)

    @staticmethod
    def _top(rv):
        return rv

    @staticmethod
    def type_tail(path):
        p = re.sub(r'::<.*?>(?=::|$)', '', path)
        p = re.sub(r'<.*>', '', p)
        return p.split('::')[-1].strip()

    def adt(self, path, args):
        clean = re.sub(r'::<[^()]*>(?=::|$)', '', path)
        # strip generic argument lists properly (nested)
        clean = self._strip_generics(path)
        parts = clean.split('::')
        if len(parts) >= 2 and parts[-2] in self.enums and parts[-1] in self.enums[parts[-2]]:
            return Enum(parts[-2], parts[-1], args)
        if len(parts) >= 2 and parts[-1][:1].isupper() and parts[-2][:1].isupper() and parts[-2] not in ('Self',):
            # an enum we have no table for: keep the variant name (discriminant reads will fail loudly)
            return Enum(parts[-2], parts[-1], args)
        return Struct(parts[-1], args)

    @staticmethod
    def _strip_generics(path):
        out, depth = '', 0
        i = 0
        while i < len(path):
            c = path[i]
            if c == '<' and (path[i - 2:i] == '::' or depth > 0 or (i > 0 and path[i - 1].isalnum())):
                depth += 1
            elif c == '>' and depth > 0 and path[i - 1] not in '-=':
                depth -= 1
                if depth == 0 and out.endswith('::'):
                    out = out[:-2]
            elif depth == 0:
                out += c
            i += 1
        return out.replace('::::', '::')

    def discriminant(self, m, fr, p):
        v = self.read(m, fr, p)
        if isinstance(v, Ref):
            v = self._get(v.cell, v.path)
        if isinstance(v, Coroutine):
            return mk_int(v.state, 'u32')
        if isinstance(v, Enum):
            return mk_int(self.variant_index(v), 'isize')
        if isinstance(v, SymEnum):
            forks = []
            for cond, alt in v.alts:
                m2 = m.fork(cond)
                fr2 = m2.frames[-1]
                cell, path = self.resolve(m2, fr2, p)
                cur = self._get(cell, path)
                # choose the matching alternative in the copied machine
                idx = [i for i, (c, a) in enumerate(v.alts) if c is cond][0]
                self._set(cell, path, cur.alts[idx][1])
                forks.append((m2, mk_int(self.variant_index(cur.alts[idx][1]), 'isize')))
            return forks
        if isinstance(v, BoolRef):
            return BV(If(v, BitVecVal(1, 64), BitVecVal(0, 64)), True)
        raise Unsupported('discriminant of %r' % (v,))

    def variant_index(self, e):
        vs = self.enums.get(e.ty)
        if vs is None:
            raise Unsupported('unknown enum %s (variant %s)' % (e.ty, e.variant))
        if isinstance(vs, dict):
            return vs[e.variant]
        return vs.index(e.variant)

    def deref_value(self, v):
        while isinstance(v, Ref):
            v = self._get(v.cell, v.path)
        return v

    # -------------------------------------------------------------------------------- arithmetic
    def binop(self, op, a, b):
        if isinstance(a, FP) and isinstance(b, FP):
            return fp_binop(op, a.v, b.v)
        if op in ('Eq', 'Ne') and not isinstance(a, BV):
            x, y = bool_(a), bool_(b)
            return (x == y) if op == 'Eq' else (x != y)
        if not isinstance(a, BV) or not isinstance(b, BV):
            if op in ('BitAnd', 'BitOr', 'BitXor'):
                x, y = bool_(a), bool_(b)
                return {'BitAnd': And(x, y), 'BitOr': Or(x, y), 'BitXor': x != y}[op]
            raise Unsupported('binop %s on %r, %r' % (op, a, b))
        s = a.signed
        x, y = a.v, b.v
        if op in ('Shl', 'Shr', 'ShlUnchecked', 'ShrUnchecked') and y.size() != x.size():
            y = ZeroExt(x.size() - y.size(), y) if y.size() < x.size() else Extract(x.size() - 1, 0, y)
        if op in ('Add', 'AddUnchecked'):
            return BV(x + y, s)
        if op in ('Sub', 'SubUnchecked'):
            return BV(x - y, s)
        if op in ('Mul', 'MulUnchecked'):
            return BV(x * y, s)
        if op == 'Div':
            return BV(x / y if s else UDiv(x, y), s)
        if op == 'Rem':
            return BV(SRem(x, y) if s else URem(x, y), s)
        if op == 'BitAnd':
            return BV(x & y, s)
        if op == 'BitOr':
            return BV(x | y, s)
        if op == 'BitXor':
            return BV(x ^ y, s)
        if op in ('Shl', 'ShlUnchecked'):
            return BV(x << y, s)
        if op in ('Shr', 'ShrUnchecked'):
            return BV(x >> y if s else LShR(x, y), s)
        if op == 'Eq':
            return x == y
        if op == 'Ne':
            return x != y
        if op == 'Lt':
            return x < y if s else ULT(x, y)
        if op == 'Le':
            return x <= y if s else ULE(x, y)
        if op == 'Gt':
            return x > y if s else UGT(x, y)
        if op == 'Ge':
            return x >= y if s else UGE(x, y)
        if op == 'AddWithOverflow':
            ok = And(BVAddNoOverflow(x, y, s), BVAddNoUnderflow(x, y)) if s else BVAddNoOverflow(x, y, False)
            return Tup([BV(x + y, s), Not(ok)])
        if op == 'SubWithOverflow':
            ok = And(BVSubNoOverflow(x, y), BVSubNoUnderflow(x, y, s)) if s else BVSubNoUnderflow(x, y, False)
            return Tup([BV(x - y, s), Not(ok)])
        if op == 'MulWithOverflow':
            ok = And(BVMulNoOverflow(x, y, s), BVMulNoUnderflow(x, y)) if s else BVMulNoOverflow(x, y, False)
            return Tup([BV(x * y, s), Not(ok)])
        if op == 'Cmp':
            lt = (x < y) if s else ULT(x, y)
            return SymEnum('Ordering', [(lt, Enum('Ordering', 'Less')), (And(Not(lt), x == y), Enum('Ordering', 'Equal')),
                                        (And(Not(lt), x != y), Enum('Ordering', 'Greater'))])
        raise Unsupported('binop ' + op)

    def cast(self, v, ty, kind):
        ty = ty.strip()
        if kind in ('IntToInt',):
            if isinstance(v, BoolRef) or isinstance(v, bool):
                w, s = INT_TYPES[ty]
                return BV(If(bool_(v), BitVecVal(1, w), BitVecVal(0, w)), s)
            w, s = INT_TYPES[ty]
            cur = v.width()
            if w == cur:
                return BV(v.v, s)
            if w < cur:
                return BV(Extract(w - 1, 0, v.v), s)
            return BV(SignExt(w - cur, v.v) if v.signed else ZeroExt(w - cur, v.v), s)
        if kind.startswith('PointerCoercion') or kind in ('Transmute', 'PtrToPtr', 'Subtype'):
            return v
        if kind == 'IntToFloat' and ty == 'f64' and isinstance(v, BV):
            from z3 import fpSignedToFP, fpUnsignedToFP, RNE, Float64
            return FP((fpSignedToFP if v.signed else fpUnsignedToFP)(RNE(), v.v, Float64()))
        if kind == 'IntToFloat' and ty == 'f64' and (isinstance(v, BoolRef) or isinstance(v, bool)):
            from z3 import FPVal, Float64
            return FP(If(bool_(v), FPVal(1.0, Float64()), FPVal(0.0, Float64())))
        if kind == 'FloatToInt' and isinstance(v, FP) and ty in INT_TYPES:
            # `as` saturates and maps NaN to 0
            from z3 import fpToSBV, fpToUBV, fpIsNaN, fpLT, fpGEQ, FPVal, Float64, RTZ
            w, sg = INT_TYPES[ty]
            lo, hi = (-(1 << (w - 1)), (1 << (w - 1))) if sg else (0, 1 << w)
            mn, mx = (BitVecVal(lo, w), BitVecVal(hi - 1, w))
            conv = (fpToSBV if sg else fpToUBV)(RTZ(), v.v, __import__('z3').BitVecSort(w))
            r = If(fpIsNaN(v.v), BitVecVal(0, w), If(fpLT(v.v, FPVal(float(lo), Float64())), mn, If(fpGEQ(v.v, FPVal(float(hi), Float64())), mx, conv)))
            return BV(r, sg)
        if kind in ('IntToFloat', 'FloatToInt', 'FloatToFloat'):
            return Opaque('float-cast')
        raise Unsupported('cast kind ' + kind)

    # -------------------------------------------------------------------------------- calls
    def split_call(self, s):
        """'callee(args) -> [return: bbN, ...]' -> (callee, [args], retbb or None)"""
        i = s.rindex(' -> ')
        head, tail = s[:i], s[i + 4:]
        mm = re.search(r'return: (bb\d+)', tail)
        retbb = mm.group(1) if mm else None
        head = head.strip()
        assert head.endswith(')'), head
        # find the opening paren matching the final ')'
        depth = 0
        j = len(head) - 1
        while j >= 0:
            c = head[j]
            if c == '"':
                j -= 1
                while j >= 0 and head[j] != '"':
                    j -= 1
            elif c in ')]}':
                depth += 1
            elif c in '([{':
                depth -= 1
                if depth == 0:
                    break
            j -= 1
        callee, args = head[:j].strip(), head[j + 1:-1]
        return callee, split_top(args), retbb

    def call(self, m, fr, dst, s):
        callee, argtxt, retbb = self.split_call(s)
        callee = self.subst_tyargs(callee, fr)
        args = [self.operand(m, fr, a) for a in argtxt]
        # 1. natives
        for rx, fn in self.natives:
            if rx.search(callee):
                self.used_natives.add(rx.pattern)
                try:
                    val = fn(self, m, callee, args)
                except NativeFork as nf:
                    forks = []
                    for cond, thunk in nf.alts:
                        m2 = m.fork(cond)
                        fr2 = m2.frames[-1]
                        args2 = [self.operand(m2, fr2, a) for a in argtxt]
                        try:
                            v2 = thunk(m2, args2)
                        except NativePanic as ex:
                            m2.result = ('panic', ex.msg)
                            m2.frames = []
                            forks.append(m2)
                            continue
                        self.write(m2, fr2, dst, v2)
                        if retbb is None:
                            raise NativePanic('diverging call returned')
                        self.goto(fr2, retbb)
                        forks.append(m2)
                    return forks
                if retbb is None:
                    raise NativePanic('diverging native call ' + callee)
                self.write(m, fr, dst, val)
                self.goto(fr, retbb)
                return None
        # 2. closures called through Fn traits
        if re.search(r'as Fn(Once|Mut)?<', callee) and args and isinstance(self.deref_value(args[0]), FnItem):
            fi = self.deref_value(args[0])
            packed = args[1]
            fname = self.fn_item_name(fi.text, None) or self.fn_item_name(fi.text, fr)
            if fname is None and fi.owner:
                nested = re.sub(r'@@\d+$', '', fi.owner) + '::' + re.sub(r'::<.*>$', '', fi.text).split('::')[-1]
                fname = nested if nested in self.prog.funcs else None
            if fname is None:
                raise Unsupported('function item ' + fi.text)
            cargs = packed.items if isinstance(packed, Tup) else [packed]
            r = self.push(m, fr, fname, cargs, dst, retbb)
            tb = dict(fi.tybind)
            tb.update(self.bind_generics(fname, self.subst_tyargs(fi.text, fr)))
            m.frames[-1].tybind = tb
            return r
        if re.search(r'as Fn(Once|Mut)?<', callee) and args and isinstance(self.deref_value(args[0]), Closure):
            clo = self.deref_value(args[0])
            packed = args[1]
            fname = self.closure_fn(clo.span, clo.owner, packed.items if isinstance(packed, Tup) else [packed])
            cargs = [args[0] if isinstance(args[0], Ref) else Ref(Cell(clo))] + (packed.items if isinstance(packed, Tup) else [packed])
            r = self.push(m, fr, fname, cargs, dst, retbb)
            m.frames[-1].tybind = dict(clo.tybind)
            return r
        # 3. MIR bodies of the crate
        callee2 = self.subst_tyargs(callee, fr)
        fname = self.resolve_callee(callee2, args)
        if fname is None:
            raise Unsupported('callee ' + callee2)
        r = self.push(m, fr, fname, args, dst, retbb)
        tb = self.bind_generics(fname, callee2)
        tb.update(self.bind_impl_generics(fname, callee2))
        m.frames[-1].tybind = tb
        return r

    def subst_tyargs(self, callee, fr):
        """Replace the caller's generic parameters (A, B, O, F...) by the types they are bound to in this frame."""
        tb = getattr(fr, 'tybind', None)
        if tb:
            callee = re.sub(r'\b([A-Z]\w*)\b', lambda mm: tb.get(mm.group(1), mm.group(1)), callee)
        return self.normalize_assoc(callee)

    def normalize_assoc(self, text):
        """Rewrite associated-type projections <X as Array>::Builder / ::Item to the types the impls declare."""
        for _ in range(4):
            i = text.find('<')
            changed = False
            # innermost-first: find a projection whose X contains no further projection
            for mm in re.finditer(r'<([^<>]*(?:<[^<>]*(?:<[^<>]*>[^<>]*)*>[^<>]*)*) as (?:array::)?(Array|ArrayBuilder)>::(Builder|Item|Array)\b', text):
                x, trait, assoc = mm.group(1), mm.group(2), mm.group(3)
                if re.fullmatch(r'[A-Z]\w*', x.strip()):
                    continue      # still a bare generic parameter
                t = self.assoc_type(x, trait, assoc)
                if t is None:
                    continue
                text = text[:mm.start()] + t + text[mm.end():]
                changed = True
                break
            if not changed:
                break
        return text

    def assoc_type(self, x, trait, assoc):
        key = (self.prog.norm_type(x), trait, assoc)
        if key in self._assoc_cache:
            return self._assoc_cache[key]
        import os
        from vlib.common import REPO
        res = None
        head = self.type_head(x)
        for name in self.prog.funcs:
            m2 = re.search(r'<impl at (src/[^:]+):(\d+):', name)
            if not m2:
                continue
            info = self.prog.impl_info(name)
            if not info or not info[0] or self._strip_generics(info[0]).split('::')[-1].strip() != trait or self.type_head(info[1]) != head:
                continue
            lines = open(os.path.join(REPO, m2.group(1))).read().split('\n')
            j = int(m2.group(2)) - 1
            line = lines[j]
            body = '\n'.join(lines[j:j + 12])
            tm = re.search(r'type %s = ([^;]+);' % assoc, body)
            if not tm:
                continue
            decl = tm.group(1).strip()
            # bind the impl's generics from x
            names = []
            if 'impl<' in line:
                hdr = line[line.index('impl<') + 4:]
                gl = hdr[1:match_paren(hdr, 0)]
                names = [g.split(':')[0].strip() for g in split_top(gl) if g.strip() and not g.strip().startswith("'")]
            bind = {}

            def unify(p, c):
                p, c = p.strip().lstrip('&').strip(), c.strip().lstrip('&').strip()
                if p in names:
                    bind.setdefault(p, c)
                    return
                if '<' in p and '<' in c:
                    for a, b in zip(split_top(p[p.index('<') + 1:p.rindex('>')]), split_top(c[c.index('<') + 1:c.rindex('>')])):
                        unify(a, b)
            unify(info[1], x)
            res = re.sub(r'\b([A-Z]\w*)\b', lambda q: bind.get(q.group(1), q.group(1)), decl)
            break
        self._assoc_cache[key] = res
        return res

    def generic_names(self, fname):
        """Generic parameter names of a function, read from its source signature."""
        if fname in self._gn_cache:
            return self._gn_cache[fname]
        tail = fname.split('::')[-1]
        names = []
        if '{closure' not in tail:
            import glob, os
            from vlib.common import REPO
            if self._src is None:
                self._src = '\n'.join(open(f).read() for f in glob.glob(os.path.join(REPO, 'src/**/*.rs'), recursive=True))
            mm = re.search(r'fn %s<([^(]*?)>\s*\(' % re.escape(tail), self._src)
            if mm:
                for g in split_top(mm.group(1)):
                    g = g.strip()
                    if g and not g.startswith("'") and not g.startswith('const '):
                        names.append(g.split(':')[0].strip())
        self._gn_cache[fname] = names
        return names

    def bind_generics(self, fname, callee):
        names = self.generic_names(fname)
        if not names:
            return {}
        # the last ::<...> group of the callee path holds the function's own generic arguments
        i = callee.rfind('::<')
        if i < 0:
            return {}
        j = match_paren(callee, i + 2)
        args = [a for a in split_top(callee[i + 3:j]) if not a.startswith("'")]
        return dict(zip(names, args))

    def bind_impl_generics(self, fname, callee):
        """Bind the generic parameters of the impl block (impl<T> Trait for Type<T>) from the concrete self type."""
        mm = re.match(r'<(.+) as (.+?)>::\w+', callee)
        conc = mm.group(1) if mm else None
        if conc is None:
            mm = re.search(r'<impl ([^>]+(?:<.*>)?)>::\w+', callee)
            conc = mm.group(1) if mm else None
        if conc is None:
            return {}
        m2 = re.search(r'<impl at (src/[^:]+):(\d+):', fname)
        if not m2:
            return {}
        import os
        from vlib.common import REPO
        try:
            line = open(os.path.join(REPO, m2.group(1))).read().split('\n')[int(m2.group(2)) - 1]
        except (OSError, IndexError):
            return {}
        g = re.match(r'\s*(?:unsafe )?impl<(.*?)>\s', line)
        info = self.prog.impl_info(fname)
        if not g or not info:
            return {}
        # generics list up to the matching '>'
        hdr = line[line.index('impl<') + 4:]
        try:
            gl = hdr[1:match_paren(hdr, 0)]
        except MirSyntax:
            return {}
        names = [x.split(':')[0].strip() for x in split_top(gl) if x.strip() and not x.strip().startswith("'")]
        out = {}

        def unify(p, c):
            p, c = p.strip().lstrip('&').strip(), c.strip().lstrip('&').strip()
            if p in names:
                out.setdefault(p, c)
                return
            ph, ch = re.sub(r'<.*', '', p).split('::')[-1], re.sub(r'<.*', '', c).split('::')[-1]
            if ph != ch or '<' not in p or '<' not in c:
                return
            pa = split_top(p[p.index('<') + 1:p.rindex('>')])
            ca = split_top(c[c.index('<') + 1:c.rindex('>')])
            for x, y in zip(pa, ca):
                unify(x, y)
        unify(info[1], conc)
        return out

    def push(self, m, fr, fname, args, dst, retbb):
        f = self.get_func(fname)
        if len(f.params) != len(args):
            raise Unsupported('arity mismatch calling %s: %d params, %d args' % (fname, len(f.params), len(args)))
        nf = Frame(f, args)
        nf.dst, nf.retbb = dst, retbb
        m.frames.append(nf)
        return None

    def closure_fn(self, span, owner=None, argvals=None):
        """MIR body of a closure. Macro-generated closures share one source span, so the closure is looked up among the
        closures of the function that created it."""
        if self.closure_index is None:
            self.closure_index = {}
            for mm in re.finditer(r'^fn (.+?)\(_1: (?:&(?:mut )?)?(\{closure@[^}]*\})', self.prog.text, re.M):
                self.closure_index.setdefault(mm.group(2), []).append(mm.group(1))
        cands = self.closure_index.get(span)
        if not cands:
            raise Unsupported('closure body not found: ' + span)
        if len(cands) == 1:
            return cands[0]
        if owner:
            mine = [c for c in cands if c.startswith(owner + '::{closure#')]
            if len(mine) == 1:
                return mine[0]
            if mine and argvals is not None:
                # macro arms share span and owner: pick the body whose parameter types fit the runtime arguments
                fit = [c for c in mine if self._params_fit(self.get_func(c), argvals)]
                if len(fit) == 1:
                    return fit[0]
        raise Unsupported('ambiguous closure %s (owner %s): %d bodies' % (span, owner, len(cands)))

    def _params_fit(self, f, argvals):
        ps = f.params[1:]
        if len(ps) == 1 and len(argvals) != 1:
            return True
        for (_, ty), v in zip(ps, argvals):
            v = self.deref_value(v)
            t = ty.strip().lstrip('&').strip()
            if t.startswith('mut '):
                t = t[4:]
            if isinstance(v, BV):
                if t not in INT_TYPES or INT_TYPES[t] != (v.width(), v.signed):
                    return False
            elif isinstance(v, Str):
                if t not in ('str', 'std::string::String'):
                    return False
            elif isinstance(v, (BoolRef, bool)):
                if t != 'bool':
                    return False
        return True

    def resolve_callee(self, callee, args):
        if callee in self.resolved:
            return self.resolved[callee]
        self._dynamic = False
        name = self._resolve(callee, args)
        if not self._dynamic:
            self.resolved[callee] = name
        return name

    def _resolve(self, callee, args):
        c = self._strip_generics(callee)
        if c in self.prog.funcs:
            return c
        # <T as Trait>::method[::<generic args>]
        base = callee
        if base.endswith('>') and '::<' in base:
            # the generic-argument list that closes at the end of the path (fn-pointer types inside it contain `->` and `::<` of their own)
            for mm_ in re.finditer(r'::<', base):
                i = mm_.start()
                try:
                    if match_paren(base, i + 2) == len(base) - 1:
                        base = base[:i]
                        break
                except MirSyntax:
                    continue
        mm = re.match(r'<(.+) as (?:std::convert::)?Into<(.+)>>::into$', base) or re.match(r'<(.+) as (?:std::convert::)?From<(.+)>>::from$', base)
        if mm:
            x, y = (mm.group(1), mm.group(2)) if base.endswith('::into') else (mm.group(2), mm.group(1))
            c = self.prog.by_signature('from', first_param=x, ret=y)
            if len(c) == 1:
                return c[0]
            return None
        mm = re.match(r'<(.+) as (.+?)>::(\w+)$', base)
        if mm:
            ty, trait, meth = mm.group(1), self._strip_generics(mm.group(2)).split('::')[-1], mm.group(3)
            cands = []
            for name in self.prog.by_tail.get(meth, []):
                info = self.prog.impl_info(name)
                if not info or not info[0]:
                    continue
                tr = self._strip_generics(info[0]).split('::')[-1].strip()
                if tr != trait and not tr.startswith('$'):
                    continue
                cands.append((name, info[1]))
            if not cands:
                # a provided (default) method of the trait itself
                for name in self.prog.by_tail.get(meth, []):
                    if name.endswith('%s::%s' % (trait, meth)) and '<impl' not in name:
                        return name
                return None
            tyh = self.type_head(ty)
            best = [n for n, t in cands if self.type_head(t) == tyh]
            if len(best) == 1:
                return best[0]
            if len(best) > 1:
                # macro-generated impls (same span): pick by the receiver type in the signature (&T vs T)
                sig = [n for n in self.prog.by_signature(meth, first_param=ty) if n.split('@@')[0] in best]
                if len(sig) == 1:
                    return sig[0]
            if not best and len(cands) == 1:
                return cands[0][0]
            if best:
                # several impls for the same head (e.g. generic parameters): pick by runtime receiver
                return best[0]
            # type parameter (A, B, O...): dispatch on the receiver's runtime shape
            return self.dispatch_dynamic(cands, args)
        if re.match(r'^(std|core|alloc|bitvec|num_traits|ordered_float|rust_decimal|chrono|egg|itertools|smallvec|regex|serde|bytes|tokio|futures)\b', c.lstrip('<&')):
            return None
        tail = c.split('::')[-1]
        cands = self.prog.by_tail.get(tail, [])
        if len(cands) == 1:
            return cands[0]
        if cands:
            # prefer the candidate whose qualified name ends with the callee's visible path
            vis = re.sub(r'<impl [^>]*>', '<impl>', c)
            segs = [s for s in vis.split('::') if s and s != '<impl>']
            scored = []
            for n in cands:
                nn = re.sub(r'<impl at [^>]*>', '<impl>', n)
                nsegs = [s for s in nn.split('::') if s and s != '<impl>']
                k = 0
                while k < min(len(segs), len(nsegs)) and segs[-1 - k] == nsegs[-1 - k]:
                    k += 1
                scored.append((k, n))
            scored.sort(reverse=True)
            if len(scored) == 1 or scored[0][0] > scored[1][0]:
                return scored[0][1]
            # `path::Type::method`: an inherent or trait method of Type
            if len(segs) >= 2 and segs[-2][:1].isupper():
                want = segs[-2]
                hit = []
                for k, n in scored:
                    info = self.prog.impl_info(n)
                    if info and self.type_head(info[1]) == want:
                        hit.append(n)
                if len(hit) >= 1:
                    inherent = [n for n in hit if not self.prog.impl_info(n)[0]]
                    return (inherent or hit)[0]
            # tie: impl methods on a type named in the callee
            mm = re.search(r'<impl ([\w:]+)', callee)
            if mm:
                want = mm.group(1).split('::')[-1]
                for k, n in scored:
                    info = self.prog.impl_info(n)
                    if info and self.type_head(info[1]) == want and k == scored[0][0]:
                        return n
            return scored[0][1]
        return None

    @staticmethod
    def type_head(t):
        t = t.strip().lstrip('&').strip()
        if t.startswith('mut '):
            t = t[4:]
        t = re.sub(r'<.*', '', t)
        return t.split('::')[-1].strip()

    def dispatch_dynamic(self, cands, args):
        self._dynamic = True
        recv = self.deref_value(args[0]) if args else None
        shape = None
        if isinstance(recv, Struct):
            shape = recv.name
        elif isinstance(recv, Enum):
            shape = recv.ty
        for n, t in cands:
            if shape and self.type_head(t) == shape:
                return n
        return None


BINOPS = {'Add', 'Sub', 'Mul', 'Div', 'Rem', 'BitAnd', 'BitOr', 'BitXor', 'Shl', 'Shr', 'Eq', 'Ne', 'Lt', 'Le', 'Gt', 'Ge', 'Cmp',
          'AddWithOverflow', 'SubWithOverflow', 'MulWithOverflow', 'AddUnchecked', 'SubUnchecked', 'MulUnchecked', 'ShlUnchecked',
          'ShrUnchecked', 'Offset'}
