"""C07 (unit slice): a delete vector hides exactly the deleted rows of the batch it is applied to (engine M).

`DeleteVector::apply_to(visibility, offset_row_id)` is the one place where deletions meet scans: every scan of a row-set
builds a visibility bitmap for the batch starting at `offset_row_id` and lets each delete vector clear the bits of its
rows.  Kani exhausts memory on it (bitvec iteration), so its MIR is interpreted: the vector holds 0-3 symbolic row ids
(sorted, without duplicates: the invariant `new` / `open` establish with sort_unstable + dedup), the bitmap has 1-4
symbolic bits, the offset is symbolic.  Obligation: bit i afterwards = bit i before AND (offset + i is not deleted).
The packing of (row-set id, row offset) into the i64 row handler that DELETE sends back is decided by Kani
(`c19_rowhandler_bijection`).  Everything else the property is about -- delete / compaction / reopen histories -- is async
storage code outside every installed solver engine; it is probed end to end (not a solver decision)."""
import itertools, json, re, shutil, time
from z3 import BitVec, Bool, BoolVal, BitVecVal, And, Or, Not, ULT, ZeroExt, Extract, is_true
from vlib.common import Report, Inconclusive, rl, scratch_dir
from . import engine
from .engine import make_vm, check, satisfiable, find_fn
from .vm import Ref, Cell, Enum, SymEnum, BV, Struct, Seq, Bits, Opaque, Iter, Tup, Unsupported, NativeFork, mk_int, concrete_int, UNIT
from .mir import MirSyntax
from .natives import native, crate_contract, dv, bool_, it_items, it_advance, call_closure, as_ref, some, NONE


@native(r'^core::slice::<impl \[.*\]>::partition_point::<', 'slice::partition_point(pred): the index of the first element for which pred is false (the slice is partitioned); one fork per index')
def _partition_point(vm, m, callee, args):
    s = dv(vm, args[0])
    while isinstance(s, Ref):
        s = dv(vm, s)
    preds = []
    for x in s.items:
        v, pan = call_closure(vm, m, args[1], [Ref(Cell(x))])
        preds.append(bool_(v))
    alts = []
    for k in range(len(preds) + 1):
        cond = And([preds[i] for i in range(k)] + ([Not(preds[k])] if k < len(preds) else []))
        alts.append((cond, (lambda m2, a2, k=k: mk_int(k, 'usize'))))
    raise NativeFork(alts)


@native(r' as Iterator>::skip$', 'Iterator::skip(n) with a concrete n')
def _it_skip(vm, m, callee, args):
    n = concrete_int(dv(vm, args[1]))
    if n is None:
        raise Unsupported('skip of a symbolic count')
    items, pan = it_items(vm, m, args[0])
    return Iter('owned', items=[x for _, x in items[n:]], pos=0)


@native(r' as Iterator>::peekable$', 'Iterator::peekable')
def _peekable(vm, m, callee, args):
    return args[0]


@native(r'^std::iter::Peekable::<.*>::peek$', 'Peekable::peek: the next item without consuming it')
def _peek(vm, m, callee, args):
    items, pan = it_items(vm, m, args[0])
    if not items:
        return NONE()
    return some(Ref(Cell(items[0][1])))


@native(r'^bitvec::slice::api::<impl BitSlice(<.*>)?>::iter_mut$', 'BitSlice::iter_mut yields one mutable bit reference per position')
def _iter_mut(vm, m, callee, args):
    b = dv(vm, args[0])
    while isinstance(b, Ref):
        b = dv(vm, b)
    return Iter('owned', items=[Opaque('bitref', (b, i)) for i in range(len(b.bits))], pos=0)


@native(r'^(bitvec::ptr::)?BitRef::<.*>::set$', 'BitRef::set(value)')
def _bitref_set(vm, m, callee, args):
    r = dv(vm, args[0])
    bits, i = r.data
    bits.bits[i] = bool_(dv(vm, args[1]))
    return UNIT


@crate_contract(r'^<std::ops::RangeFrom<usize> as Iterator>::zip::<', '(start..).zip(other): start, start+1, ... paired with the items of the other iterator')
def _rangefrom_zip(vm, m, callee, args):
    r = dv(vm, args[0])
    start = r.fields[0]
    other, pan = it_items(vm, m, args[1])
    return Iter('owned', items=[Tup([BV(start.v + BitVecVal(i, start.width()), False), x]) for i, (_, x) in enumerate(other)], pos=0)


def run_unit(rep, thorough):
    t0 = time.time()
    try:
        vm = make_vm(True)
        fname = find_fn(vm.prog, r'^delete_vector::<impl at src/storage/secondary/delete_vector\.rs:\d+:\d+: \d+:\d+>::apply_to$')
    except (Inconclusive, Unsupported, MirSyntax) as ex:
        rep.fail_inconclusive('DeleteVector::apply_to: %s' % ex)
        return
    n_ob = 0
    for nd, nb in itertools.product(range(0, 4 if thorough else 3), range(1, 5 if thorough else 4)):
        desc = 'DeleteVector::apply_to: %d deleted row ids, a batch of %d rows, any offset' % (nd, nb)
        dels = [BitVec('del%d' % i, 32) for i in range(nd)]
        off = BitVec('offset', 32)
        bits0 = [Bool('vis%d' % i) for i in range(nb)]
        pre = [ULT(dels[i], dels[i + 1]) for i in range(nd - 1)]          # sort_unstable + dedup
        pre.append(ULT(off, BitVecVal((1 << 32) - 8, 32)))               # offset + batch length stays a row id
        dv_ = Struct('DeleteVector', [mk_int(0, 'u64'), mk_int(0, 'u32'), Seq([BV(d, False) for d in dels], 'vec')])
        bv_ = Bits(list(bits0))
        bref = Ref(Cell(bv_))
        try:
            outs = vm.run(fname, [Ref(Cell(dv_)), bref, BV(off, False)], pc=tuple(pre))
        except (Unsupported, MirSyntax, KeyError, IndexError, AttributeError, TypeError) as ex:
            rep.fail_inconclusive('%s: %s: %s' % (desc, type(ex).__name__, str(ex)[:300]))
            continue
        for o in outs:
            n_ob += 1
            rep.cov['programs'] += 1
            if o.kind != 'ret':
                st, m = satisfiable(list(o.pc))
                if st == 'unsat':
                    continue
                out = rep.counterexample('delete-vector:panics', '%s: panics (%s)' % (desc, o.value), {'desc': desc}, None)
                rep.obligation(out == 'known')
                continue
            got = vm.deref_value(o.args[1])
            want = [And(bits0[i], And([d != off + BitVecVal(i, 32) for d in dels]) if dels else BoolVal(True)) for i in range(nb)]
            claim = And([bool_(g) == w for g, w in zip(got.bits, want)]) if len(got.bits) == nb else BoolVal(False)
            st, m = check(list(o.pc), claim)
            if st == 'unsat':
                rep.obligation(True)
                continue
            if st == 'unknown':
                rep.obligation(False)
                rep.fail_inconclusive('solver unknown: ' + desc)
                continue
            w = {'deletes': [m.eval(d, model_completion=True).as_long() for d in dels], 'offset': m.eval(off, model_completion=True).as_long(),
                 'visible_before': [bool(is_true(m.eval(b, model_completion=True))) for b in bits0],
                 'visible_after': [bool(is_true(m.eval(bool_(g), model_completion=True))) for g in got.bits],
                 'expected': [bool(is_true(m.eval(x, model_completion=True))) for x in want]}
            rp = replay_unit(w)
            what = '%s: deletes %s, offset %d: visibility %s -> %s, expected %s; native replay: %s' % (desc, w['deletes'], w['offset'], w['visible_before'], w['visible_after'], w['expected'], rp.get('line'))
            out = rep.counterexample('delete-vector:apply_to', what[:500], {'desc': desc, 'witness': w, 'replay': rp}, rp['reproduced'])
            rep.obligation(out == 'known')
        if all(True for _ in [0]):
            rep.sample({'obligation': desc, 'paths': len(outs), 'verdict': 'bit i afterwards = bit i before AND offset+i not deleted, for every sorted duplicate-free id list, offset and bitmap'}, cap=8)
    rep.solver(time.time() - t0, n_ob)
    rep.cov['functions_encoded'] = ['DeleteVector::apply_to and its partition_point closure (from MIR)', 'SecondaryRowHandler <-> i64 (Kani harness c19_rowhandler_bijection, run under C19)']
    rep.cov['trusted_base'] = ['engine M natives: ' + ', '.join(sorted(vm.used_natives))[:700]]


def replay_unit(w):
    from kani import run as krun, gen
    try:
        import os
        if not os.path.exists(os.path.join(krun.KDIR, 'src', 'bin', 'replay.rs')) or 'c07_apply_replay' not in open(os.path.join(krun.KDIR, 'src', 'bin', 'replay.rs')).read():
            krun.prepare(gen.c19_harnesses(False))
        le = lambda x: [(x >> (8 * k)) & 255 for k in range(4)]
        line = krun.native_replay('c07_apply_replay', [sum((le(d) for d in w['deletes']), []), le(w['offset']), [1 if b else 0 for b in w['visible_before']]])
    except Exception as ex:
        return {'reproduced': None, 'line': 'native replay unavailable: %s' % ex}
    return {'reproduced': True if line.startswith('REPLAY panic') else (False if line.startswith('REPLAY ok') else None), 'line': line}


# ------------------------------------------------------------------------------------------------ end-to-end probes
def histories(thorough):
    """Insert / delete histories over a keyed table, several row-sets, small blocks; the model is a python multiset."""
    base = [
        ['I 1 2 3 4 5 6', 'D k = 3', 'D k > 4', 'I 7 8', 'D v % 2 = 0'],
        ['I 1 2 3', 'I 4 5 6', 'I 7 8 9', 'D k >= 3 and k <= 7', 'I 3 4', 'D k = 4'],
        ['I 5 5 5 6', 'D k = 5', 'I 5', 'D k = 6', 'D k = 6'],
        ['I 1 2', 'D k = 9', 'D k < 100', 'I 1'],
        ['I 10 20 30 40 50 60 70 80', 'D k = 10', 'D k = 80', 'D k > 30 and k < 60', 'I 45', 'D v = 0'],
        ['I 1 3 5 7 9 11', 'I 2 4 6 8 10 12', 'D k < 7', 'I 0 13', 'D k > 3 and k < 11', 'D k = 12'],
        ['I 1 4 7 10', 'I 2 5 8 11', 'I 3 6 9 12', 'D k >= 4 and k <= 9', 'D k < 3'],
        ['I 0 5 10 15 20', 'I 1 6 11 16 21', 'I 2 7 12 17 22', 'I 3 8 13 18 23', 'I 4 9 14 19 24', 'D k = 12', 'D k > 20', 'I 12 30'],
    ]
    # inputs larger than one chunk (1024 rows) and one block, deletions spread over several row-sets
    big = [['R 0 1300', 'R 1300 2600', 'D k % 3 = 0', 'D k >= 1000 and k < 1100', 'R 5000 5010', 'D v % 7 = 1', 'D k = 2599'],
           ['R 0 2100', 'D k < 1024', 'D k = 1024', 'R 0 10', 'D k >= 2090']]
    # forced compaction ('C': the driver sleeps past the compactor's 1 s timer, every table with two or more row-sets is
    # rewritten into one, with the run-length / dictionary encoding the compactor picks) and reopen ('O') steps
    forced = [['I 1 4 7 10', 'I 2 5 8 11', 'I 3 6 9 12', 'D k >= 4 and k <= 6', 'C', 'D k = 8', 'I 5 13', 'O', 'D k > 11', 'I 20 21', 'C', 'D v % 2 = 0'],
              ['I 7 7 7 7 8 8', 'I 7 7 9 9', 'D k = 8', 'C', 'I 8 7', 'D k = 9', 'O', 'C', 'D k = 7'],
              ['I 1 2 3 4 5 6 7 8', 'D k < 3', 'I 9 10', 'D k = 9', 'O', 'I 11', 'C', 'O', 'D k > 6'],
              # a compaction pass that merges only some of the row-sets: the first row-set alone exceeds the target
              # row-set size (step 'S 4096' sets it), the two small ones are merged; the big one -- and the rows deleted from it
              # before the pass -- must stay as they are
              ['S 4096', 'R 0 1300', 'D k = 7', 'D k >= 100 and k < 110', 'I 5000 5001', 'I 5002 5003', 'C', 'D k = 9', 'I 6000', 'C', 'O', 'D k >= 5000'],
              # few distinct values: the compactor rewrites the columns with dictionary / run-length encoding
              ['I 7 7 7 7 7 7 8 8 8 8 8 8', 'I 7 7 7 7 8 8 8 8', 'D v = 3', 'C', 'D v = 14', 'I 8 8 7', 'O', 'C', 'D k = 7']]
    if thorough:
        forced += [h[:3] + ['C'] + h[3:] + ['O', 'C'] for h in base if len(h) > 3]
    return ((base + big) if not thorough else base + big + [h + ['I 100 101', 'D k > 99'] for h in base]) + forced


def run_probes(rep, thorough):
    n = ok = 0
    for hi, hist in enumerate(histories(thorough)):
        big = any(st.startswith('R ') for st in hist)
        # with a primary key the DELETE's scan merges the row-sets in key order (handlers of different row-sets alternate)
        dup_keys = any(len(set(st.split()[1:])) != len(st.split()[1:]) for st in hist if st.startswith('I '))
        # 256-byte blocks: 64 rows per scan batch, so a big DELETE covers whole batches of a row-set and later ones start after skipped batches
        configs = [('mem', None, False), ('disk', 4096, False)] + ([('disk', 256, False)] if big else [('disk', 24, False)]) + ([] if dup_keys else [('disk', 4096, True), ('mem', None, True)])
        forced = any(st in ('C', 'O') for st in hist)
        if forced:
            configs = [('disk', 24, False)] + ([] if dup_keys else [('disk', 4096, True)]) + ([('disk', 4096, False)] if thorough or dup_keys else [])
        for eng, block, pk in configs:
            stmts = ['create table t(k int%s, v int)' % (' primary key' if pk else '')]
            model = []
            deleted_rows = []
            deleted_by_stmt = []
            seq = 0
            checks = []
            rowset_bytes = 1 << 20
            for step in hist:
                if step.startswith('S '):
                    rowset_bytes = int(step[2:])
                elif step in ('C', 'O'):
                    stmts.append('--sleep 2300' if step == 'C' else '--reopen')
                elif step.startswith(('I ', 'R ')):
                    rows = []
                    ks = step.split()[1:] if step.startswith('I ') else range(int(step.split()[1]), int(step.split()[2]))
                    for k in ks:
                        rows.append((int(k), seq))
                        seq += 1
                    for i0 in range(0, len(rows), 650):
                        stmts.append('insert into t values ' + ', '.join('(%d, %d)' % r for r in rows[i0:i0 + 650]))
                    model += rows
                else:
                    pred = step[2:]
                    stmts.append('delete from t where ' + pred)
                    keep = []
                    removed = 0
                    deleted_by_stmt.append([])
                    for k, v in model:
                        hit = eval(pred.replace(' = ', ' == ').replace('and', 'and'), {}, {'k': k, 'v': v})
                        if hit:
                            removed += 1
                            deleted_rows.append((k, v))
                            deleted_by_stmt[-1].append((k, v))
                        else:
                            keep.append((k, v))
                    model = keep
                    checks.append((len(stmts) - 1, removed))
                stmts.append('select k, v from t')
                checks.append((len(stmts) - 1, sorted(model)))
                if pk and not big:
                    # "a table with a primary key is still returned in key order by an ordered scan" (the planner drops the
                    # sort over a key-ordered disk scan), and key-range scans see exactly the surviving rows of the range
                    stmts.append('select k from t order by k')
                    checks.append((len(stmts) - 1, ('seq', sorted(k for k, _ in model))))
                    ks_ = sorted(k for k, _ in model)
                    if ks_:
                        lo, hi = ks_[len(ks_) // 4], ks_[(3 * len(ks_)) // 4]
                        stmts.append('select k, v from t where k >= %d and k <= %d' % (lo, hi))
                        checks.append((len(stmts) - 1, sorted(r for r in model if lo <= r[0] <= hi)))
            d = scratch_dir('c07') if eng == 'disk' else None
            inp = {'engine': eng, 'stmts': stmts}
            if d:
                inp.update(dir=d, block=block, rowset=rowset_bytes)
            out, rc, err = rl('sql', inp, timeout=300)
            if d:
                shutil.rmtree(d, ignore_errors=True)
            res = [o for o in out if 'sql' in o]
            if len(res) != len(stmts):
                rep.fail_inconclusive('delete history probe did not complete on %s: %s' % (eng, err[-200:]))
                continue
            for idx, want in checks:
                o = res[idx]
                n += 1
                if isinstance(want, int):
                    got = int(o['rows'][0][0]) if o.get('ok') and o.get('rows') else None
                    good = got == want
                    kind = 'delete-count'
                elif isinstance(want, tuple):
                    want = want[1]
                    got = [int(r[0]) for r in o['rows']] if o.get('ok') else None
                    good = got == want
                    kind = 'ordered-scan'
                else:
                    got = sorted((int(r[0]), int(r[1])) for r in o['rows']) if o.get('ok') else None
                    good = got == want
                    kind = 'table-content'
                if good:
                    ok += 1
                    continue
                key = 'history:%s:%s' % (eng, kind)
                if kind == 'table-content' and eng == 'disk' and got is not None:
                    extra = [r for r in got if r not in want]
                    missing = [r for r in want if r not in got]
                    whole = [set(dl) for dl in deleted_by_stmt if dl and all(r in extra for r in dl)]
                    if forced and extra and not missing and whole and set(extra) == set().union(*whole):
                        # same symptom in a history with forced compaction: the race is timing dependent, a compactor
                        # that drops delete vectors is not -- run the history again (twice) and see whether it repeats
                        again = 0
                        for _ in range(2):
                            d2 = scratch_dir('c07')
                            out2, _, _ = rl('sql', {'engine': eng, 'stmts': stmts[:idx + 1], 'dir': d2, 'block': block, 'rowset': rowset_bytes}, timeout=300)
                            shutil.rmtree(d2, ignore_errors=True)
                            r2 = [o_ for o_ in out2 if 'sql' in o_]
                            g2 = sorted((int(r[0]), int(r[1])) for r in r2[idx]['rows']) if len(r2) > idx and r2[idx].get('ok') else None
                            again += 1 if g2 == got else 0
                        key = 'history:disk:deleted-rows-reappear' if again == 0 else 'history:disk:compaction-resurrects-deleted-rows'
                    elif big and extra and not missing and whole and set(extra) == set().union(*whole):
                        # the symptom of the background compactor replacing row-sets while a DELETE commits (timing dependent):
                        # the *whole* effect of one or more DELETE statements is lost, in a history long enough for the
                        # compactor's timer to fire.  Anything else (some rows of a DELETE, a short history) is a new violation.
                        key = 'history:disk:deleted-rows-reappear'
                what = 'after `%s` (history %d, %s engine%s%s): %s is %s, the model says %s' % ('; '.join(stmts[1:idx + 1])[-200:], hi, eng, ', %d-byte blocks' % block if block else '', ', primary key' if pk else '', kind, got, want)
                outc = rep.counterexample(key, what[:500], {'stmts': stmts[:idx + 1], 'got': got, 'expected': want}, True)
                rep.obligation(outc == 'known')
                break
    # one deliberately slow scenario (tiny blocks, 4200 rows): the background compactor's timer fires while the statements run
    rows = [(k, k) for k in range(4200)]
    stmts = ['create table t(k int, v int)'] + ['insert into t values ' + ', '.join('(%d, %d)' % r for r in rows[i:i + 650]) for i in range(0, 4200, 650)] + \
            ['delete from t where k < 1024', 'select count(*) from t']
    d = scratch_dir('c07slow')
    out, rc, err = rl('sql', {'engine': 'disk', 'dir': d, 'block': 24, 'rowset': 1 << 20, 'stmts': stmts}, timeout=600)
    shutil.rmtree(d, ignore_errors=True)
    res = [o for o in out if 'sql' in o]
    if len(res) == len(stmts) and res[-1].get('ok') and res[-2].get('ok'):
        n += 1
        cnt, dele = res[-1]['rows'][0][0], res[-2]['rows'][0][0]
        if (dele, cnt) == ('1024', '3176'):
            ok += 1
        elif dele == '1024' and cnt == '4200':
            outc = rep.counterexample('history:disk:deleted-rows-reappear', 'DELETE reported 1024 rows on the disk engine (4200 rows in 7 row-sets, 24-byte blocks, statements take several seconds) and count(*) afterwards is still 4200: the deleted rows are visible again',
                                      {'stmts': [s_[:120] for s_ in stmts], 'delete_reported': dele, 'count_after': cnt}, True)
            rep.obligation(outc == 'known')
        else:
            outc = rep.counterexample('history:disk:slow-scenario', 'DELETE reported %s rows and count(*) afterwards is %s (expected 1024 / 3176)' % (dele, cnt), {'stmts': [s_[:120] for s_ in stmts]}, True)
            rep.obligation(outc == 'known')
    rep.cov['delete_history_probes'] = {'statements_checked': n, 'agreeing': ok, 'note': 'insert / delete histories on the memory and disk engines (several row-sets, 24-byte and 4 KiB blocks) against a multiset model; concrete probes, not a solver decision; five histories (thorough: thirteen) force compaction passes and reopen cycles'}


def main(tier, only=None):
    rep = Report('C07', 'model_checking', './bin/check C07 --tier ' + tier)
    thorough = tier == 'thorough'
    run_unit(rep, thorough)
    if not only:
        run_probes(rep, thorough)
    rep.cov['states'] = max(1, rep.cov['programs'])
    rep.cov['transitions'] = max(1, rep.cov['obligations'])
    rep.cov['traces_validated_against_impl'] = rep.cov['disagreements_checked']
    rep.cov['bounds'] = {'delete vector': '0-%d row ids (sorted, duplicate-free, symbolic), batches of 1-%d rows with symbolic visibility bits, symbolic offset' % ((3, 4) if thorough else (2, 3)),
                         'histories': 'see delete_history_probes'}
    rep.assumptions = ['the delete vector holds sorted, duplicate-free row ids (established by DeleteVector::new / open with sort_unstable + dedup)',
                       'compaction, vacuum, reopen and concurrent histories are outside: async storage code no installed solver engine reaches']
    return rep.finish()


def replay_cmd(path):
    print(json.dumps(json.load(open(path))['replay'], indent=1)[:6000])
    return 0
