"""Models ("natives") of the std / bitvec / collection primitives the interpreted functions call.

Each native is a few lines stating the primitive's documented behaviour on the interpreter's value model; together they
are engine M's trusted base and are listed in every evidence file.  Everything in the risinglight crate itself that has
a MIR body is interpreted from that body, not modelled here -- with the exceptions named in CRATE_CONTRACTS."""
import glob, os, re
from z3 import (BitVecVal, BoolVal, And, Or, Not, If, Extract, SignExt, ZeroExt, BVAddNoOverflow, BVAddNoUnderflow, BVSubNoOverflow,
                BVSubNoUnderflow, BVMulNoOverflow, BVMulNoUnderflow, is_true, is_false, simplify)
from .vm import (FP, fp_binop, fp_const, BV, UNIT, Tup, Struct, Enum, SymEnum, Cell, Ref, Seq, Bits, Str, Closure, FnItem, Opaque, Iter, Unsupported, NativeFork, NativePanic,
                 bool_, is_concrete_bool, mk_int, concrete_int, INT_TYPES)
from vlib.common import REPO

NATIVES = []
NATIVE_DOC = []


def native(pattern, doc):
    def deco(fn):
        NATIVES.append((re.compile(pattern), fn))
        NATIVE_DOC.append('%s: %s' % (pattern, doc))
        return fn
    return deco


def dv(vm, v):
    return vm.deref_value(v)


def some(x):
    return Enum('Option', 'Some', [x])


NONE = lambda: Enum('Option', 'None')


def as_ref(v):
    return v if isinstance(v, Ref) else Ref(Cell(v))


# ------------------------------------------------------------------------------------------------ smart pointers, conversions
@native(r'^<std::sync::Arc<.*> as (AsRef|Deref|Borrow)<?.*>::(as_ref|deref|borrow)$', 'Arc<T> derefs to its content')
def arc_deref(vm, m, callee, args):
    r = args[0]
    a = dv(vm, r)
    if isinstance(a, Struct) and a.name == 'Arc':
        if isinstance(r, Ref):
            inner = r
            # follow nested refs down to the Arc itself
            while isinstance(vm._get(inner.cell, inner.path), Ref):
                inner = vm._get(inner.cell, inner.path)
            return Ref(inner.cell, inner.path + (('field', 0),))
        return Ref(Cell(a.fields[0]))
    raise Unsupported('Arc deref of %r' % (a,))


@native(r'^<.* as Into<std::sync::Arc<.*>>>::into$|^std::sync::Arc::<.*>::new$|^<std::sync::Arc<.*> as From<.*>>::from$', 'Arc::new / into Arc wraps the value')
def arc_new(vm, m, callee, args):
    return Struct('Arc', [args[0]])


@native(r'^<(\w+) as Into<\1>>::into$|^<(\w+) as From<\2>>::from$', 'T -> T conversion is the identity')
def into_same(vm, m, callee, args):
    return args[0]


@native(r'^<std::sync::Arc<.*> as Clone>::clone$', 'Arc::clone shares the content')
def arc_clone(vm, m, callee, args):
    return dv(vm, args[0])


@native(r'^<&str as Into<std::string::String>>::into$|^<str as ToString>::to_string$|^<&str as ToString>::to_string$|^<std::string::String as From<&str>>::from$',
        '&str -> String keeps the text')
def str_into(vm, m, callee, args):
    return dv(vm, args[0])


@native(r'^<.* as AsRef<\[.*\]>>::as_ref$|^<std::(boxed::Box|vec::Vec)<.*> as (Deref|DerefMut|AsRef<.*>)>::(deref|deref_mut|as_ref)$', 'Box / Vec / slices deref to their elements')
def seq_deref(vm, m, callee, args):
    return args[0]


@native(r'as std::borrow::Borrow<|as Borrow<', 'Borrow::borrow is the identity on references')
def borrow(vm, m, callee, args):
    return args[0]


@native(r'^<.* as (Clone|ToOwned)>::(clone|to_owned)$|^std::clone::Clone::clone$', 'Clone of plain data copies it')
def clone(vm, m, callee, args):
    import copy
    return copy.deepcopy(dv(vm, args[0]))


@native(r'^std::option::Option::<.*>::ok_or::<.*>$', 'Option::ok_or')
def ok_or(vm, m, callee, args):
    o = args[0]
    if isinstance(o, Enum):
        return Enum('Result', 'Ok', [o.fields[0]]) if o.variant == 'Some' else Enum('Result', 'Err', [args[1]])
    if isinstance(o, SymEnum):
        return SymEnum('Result', [(c, Enum('Result', 'Ok', [a.fields[0]]) if a.variant == 'Some' else Enum('Result', 'Err', [args[1]])) for c, a in o.alts])
    raise Unsupported('ok_or on %r' % (o,))


@native(r'^<std::result::Result<.*> as Try>::branch$', 'Try::branch on Result: Ok -> Continue, Err -> Break(Err)')
def try_branch(vm, m, callee, args):
    def one(r):
        if r.variant == 'Ok':
            return Enum('ControlFlow', 'Continue', [r.fields[0]])
        return Enum('ControlFlow', 'Break', [Enum('Result', 'Err', [r.fields[0]])])
    r = args[0]
    if isinstance(r, Enum):
        return one(r)
    if isinstance(r, SymEnum):
        return SymEnum('ControlFlow', [(c, one(a)) for c, a in r.alts])
    raise Unsupported('branch on %r' % (r,))


@native(r'^<std::option::Option<.*> as Try>::branch$', 'Try::branch on Option')
def try_branch_opt(vm, m, callee, args):
    def one(r):
        if r.variant == 'Some':
            return Enum('ControlFlow', 'Continue', [r.fields[0]])
        return Enum('ControlFlow', 'Break', [Enum('Option', 'None')])
    r = args[0]
    if isinstance(r, Enum):
        return one(r)
    if isinstance(r, SymEnum):
        return SymEnum('ControlFlow', [(c, one(a)) for c, a in r.alts])
    raise Unsupported('branch on %r' % (r,))


@native(r' as FromResidual<.*>>::from_residual$', 'from_residual re-wraps the error')
def from_residual(vm, m, callee, args):
    r = args[0]
    if isinstance(r, Enum) and r.ty == 'Result':
        return Enum('Result', 'Err', [r.fields[0]])
    if isinstance(r, Enum) and r.ty == 'Option':
        return Enum('Option', 'None')
    raise Unsupported('from_residual %r' % (r,))


@native(r'^core::panicking::assert_failed|^std::rt::begin_panic|^core::panicking::panic|^std::rt::panic_fmt|^core::panicking::panic_fmt', 'panics')
def do_panic(vm, m, callee, args):
    raise NativePanic('explicit panic via ' + callee.split('::<')[0])


@native(r'^std::option::Option::<.*>::unwrap$|^std::option::Option::<.*>::expect$', 'Option::unwrap panics on None')
def opt_unwrap(vm, m, callee, args):
    o = args[0]
    if isinstance(o, Enum):
        if o.variant == 'None':
            raise NativePanic('unwrap on None')
        return o.fields[0]
    if isinstance(o, SymEnum):
        alts = []
        for c, a in o.alts:
            if a.variant == 'None':
                alts.append((c, lambda m2, a2: (_ for _ in ()).throw(NativePanic('unwrap on None'))))
            else:
                alts.append((c, (lambda val: (lambda m2, a2: [x for cc, x in a2[0].alts if x.variant == 'Some'][0].fields[0]))(a)))
        raise NativeFork(alts)
    raise Unsupported('unwrap on %r' % (o,))


@native(r'^std::result::Result::<.*>::unwrap$', 'Result::unwrap panics on Err')
def res_unwrap(vm, m, callee, args):
    o = args[0]
    if isinstance(o, Enum):
        if o.variant == 'Err':
            raise NativePanic('unwrap on Err')
        return o.fields[0]
    raise Unsupported('unwrap on %r' % (o,))


@native(r'^std::option::Option::<.*>::unwrap_or_default$', 'Option::unwrap_or_default')
def unwrap_or_default(vm, m, callee, args):
    o = args[0]
    mm = re.match(r'^std::option::Option::<(.*)>::unwrap_or_default$', callee)
    d = default_of(mm.group(1))
    if isinstance(o, Enum):
        return o.fields[0] if o.variant == 'Some' else d
    if isinstance(o, SymEnum):
        val = d
        for c, a in o.alts:
            if a.variant == 'Some':
                val = merge(c, a.fields[0], val)
        return val
    raise Unsupported('unwrap_or_default on %r' % (o,))


@native(r'^std::option::Option::<&.*>::(cloned|copied)$', 'Option<&T>::cloned')
def opt_cloned(vm, m, callee, args):
    o = args[0]
    def one(a):
        return Enum('Option', 'Some', [dv(vm, a.fields[0])]) if a.variant == 'Some' else a
    if isinstance(o, Enum):
        return one(o)
    return SymEnum('Option', [(c, one(a)) for c, a in o.alts])


@native(r'^std::option::Option::<.*>::is_some$|^std::option::Option::<.*>::is_none$', 'Option::is_some / is_none')
def opt_is_some(vm, m, callee, args):
    o = dv(vm, args[0])
    want = 'Some' if callee.endswith('is_some') else 'None'
    if isinstance(o, Enum):
        return BoolVal(o.variant == want)
    return Or([c for c, a in o.alts if a.variant == want] or [BoolVal(False)])


@native(r'^std::option::Option::<.*>::as_ref$', 'Option::as_ref')
def opt_as_ref(vm, m, callee, args):
    o = dv(vm, args[0])
    def one(a):
        return Enum('Option', 'Some', [as_ref(a.fields[0])]) if a.variant == 'Some' else a
    if isinstance(o, Enum):
        return one(o)
    return SymEnum('Option', [(c, one(a)) for c, a in o.alts])


def default_of(ty):
    ty = ty.strip()
    if ty in INT_TYPES:
        return mk_int(0, ty)
    if ty == 'bool':
        return BoolVal(False)
    raise Unsupported('default of ' + ty)


@native(r'^<(i8|i16|i32|i64|u8|u16|u32|u64|usize|isize|bool) as Default>::default$', 'Default for integers and bool')
def int_default(vm, m, callee, args):
    return default_of(re.match(r'^<(\w+) as', callee).group(1))


def merge(cond, a, b):
    """ite over interpreter values of the same shape."""
    if isinstance(a, BV) and isinstance(b, BV):
        return BV(If(cond, a.v, b.v), a.signed)
    if isinstance(a, FP) and isinstance(b, FP):
        return FP(If(cond, a.v, b.v))
    if isinstance(a, Ref) or isinstance(b, Ref):
        raise Unsupported('merge of references')
    if isinstance(a, (bool,)) or hasattr(a, 'sort'):
        return If(cond, bool_(a), bool_(b))
    if isinstance(a, Tup) and isinstance(b, Tup):
        return Tup([merge(cond, x, y) for x, y in zip(a.items, b.items)])
    if isinstance(a, Enum) and isinstance(b, Enum) and a.ty == b.ty and a.variant == b.variant:
        return Enum(a.ty, a.variant, [merge(cond, x, y) for x, y in zip(a.fields, b.fields)])
    if isinstance(a, Enum) and isinstance(b, Enum) and a.ty == b.ty:
        return SymEnum(a.ty, [(cond, a), (Not(cond), b)])
    if isinstance(a, (Enum, SymEnum)) and isinstance(b, (Enum, SymEnum)):
        la = a.alts if isinstance(a, SymEnum) else [(BoolVal(True), a)]
        lb = b.alts if isinstance(b, SymEnum) else [(BoolVal(True), b)]
        return SymEnum(a.ty, [(And(cond, c), x) for c, x in la] + [(And(Not(cond), c), x) for c, x in lb])
    if isinstance(a, Struct) and isinstance(b, Struct) and a.name == b.name:
        return Struct(a.name, [merge(cond, x, y) for x, y in zip(a.fields, b.fields)])
    if isinstance(a, Opaque):
        return a
    raise Unsupported('merge of %r and %r' % (a, b))


def call_merged(vm, m, fname, args, tybind=None):
    """Run a (pure) function on all paths and merge the returned values with ite; returns (value, panic condition)."""
    outs = vm.run(fname, args, m.pc, tybind)
    val, pan = None, []
    base = len(m.pc)
    for o in outs:
        extra = o.pc[base:]
        c = And(extra) if extra else BoolVal(True)
        if o.kind == 'panic':
            pan.append(c)
            continue
        v = o.value
        if isinstance(v, Ref):
            v = Ref(Cell(vm._get(v.cell, v.path)))     # detach from the finished sub-run
        if val is None:
            val = v
        else:
            a = vm._get(v.cell, v.path) if isinstance(v, Ref) else v
            b = vm._get(val.cell, val.path) if isinstance(val, Ref) else val
            mv = merge(c, a, b)
            val = Ref(Cell(mv)) if isinstance(v, Ref) else mv
    pc = Or(pan) if pan else None
    if pc is not None and is_concrete_bool(pc) is False:
        pc = None
    return val, pc


def call_closure(vm, m, clo, argvals, no_panic=False):
    c = dv(vm, clo)
    if isinstance(c, FnItem):
        fname = vm.fn_item_name(c.text, None)
        if fname is None and c.owner:
            nested = re.sub(r'@@\d+$', '', c.owner) + '::' + re.sub(r'::<.*>$', '', c.text).split('::')[-1]
            fname = nested if nested in vm.prog.funcs else None
        if fname is None:
            raise Unsupported('function item ' + c.text)
        tb = dict(c.tybind)
        try:
            tb.update(vm.bind_generics(fname, c.text))
        except Exception:
            pass
        return call_merged(vm, m, fname, list(argvals), tb)
    if not isinstance(c, Closure):
        raise Unsupported('calling a non-closure %r' % (c,))
    fname = vm.closure_fn(c.span, c.owner, argvals)
    f = vm.get_func(fname)
    selfarg = clo if isinstance(clo, Ref) else Ref(Cell(c))
    if not f.params[0][1].startswith('&'):
        selfarg = c
    if len(f.params) == 2 and len(argvals) != 1:
        cargs = [selfarg, Tup(argvals)]
    else:
        cargs = [selfarg] + list(argvals)
    val, pan = call_merged(vm, m, fname, cargs, c.tybind)
    return val, pan


# ------------------------------------------------------------------------------------------------ integers
def int_arith(vm, op, a, b):
    """Checked arithmetic as the crate is compiled: overflow panics when overflow-checks are on, wraps otherwise."""
    x, y, s = a.v, b.v, a.signed
    if op == 'add':
        r, ok = x + y, (And(BVAddNoOverflow(x, y, s), BVAddNoUnderflow(x, y)) if s else BVAddNoOverflow(x, y, False))
    elif op == 'sub':
        r, ok = x - y, (And(BVSubNoOverflow(x, y), BVSubNoUnderflow(x, y, s)) if s else BVSubNoUnderflow(x, y, False))
    elif op == 'mul':
        r, ok = x * y, (And(BVMulNoOverflow(x, y, s), BVMulNoUnderflow(x, y)) if s else BVMulNoOverflow(x, y, False))
    elif op in ('div', 'rem'):
        from z3 import SRem, UDiv, URem
        w = x.size()
        zero = y == BitVecVal(0, w)
        ovf = And(x == BitVecVal(1 << (w - 1), w), y == BitVecVal(-1, w)) if s else BoolVal(False)
        r = (x / y if s else UDiv(x, y)) if op == 'div' else (SRem(x, y) if s else URem(x, y))
        # division by zero and MIN / -1 panic in every build profile
        return BV(r, s), Or(zero, ovf)
    elif op == 'neg':
        w = x.size()
        r, ok = -x, x != BitVecVal(1 << (w - 1), w)
    else:
        raise Unsupported(op)
    return BV(r, s), (Not(ok) if vm.oc else None)


def arith_native(op):
    def fn(vm, m, callee, args):
        a, b = dv(vm, args[0]), dv(vm, args[1])
        if not isinstance(a, BV):
            return Opaque('arith:' + op)
        r, pan = int_arith(vm, op, a, b)
        if pan is None or is_concrete_bool(pan) is False:
            return r
        raise NativeFork([(pan, lambda m2, a2: (_ for _ in ()).throw(NativePanic('attempt to %s with overflow' % op))),
                          (Not(pan), lambda m2, a2: int_arith(vm, op, dv(vm, a2[0]), dv(vm, a2[1]))[0])])
    return fn


for _op, _tr in (('add', 'Add'), ('sub', 'Sub'), ('mul', 'Mul'), ('div', 'Div'), ('rem', 'Rem')):
    native(r'^<&?(i8|i16|i32|i64|u8|u16|u32|u64|usize|isize) as (std::ops::)?%s(<.*>)?>::%s$' % (_tr, _op),
           'integer %s: panics on overflow when the crate is built with overflow checks (dev), wraps otherwise (release); / and %% panic on zero' % _op)(arith_native(_op))


@native(r'^core::num::<impl (i8|i16|i32|i64|isize)>::(rem_euclid|div_euclid)$', 'iN::rem_euclid / div_euclid: Euclidean remainder (never negative) and quotient; panic on a zero divisor and on MIN / -1')
def int_euclid(vm, m, callee, args):
    from z3 import SRem
    a, b = dv(vm, args[0]), dv(vm, args[1])
    x, y = a.v, b.v
    w = x.size()
    pan = Or(y == BitVecVal(0, w), And(x == BitVecVal(1 << (w - 1), w), y == BitVecVal(-1, w)))
    ys = If(y == BitVecVal(0, w), BitVecVal(1, w), y)
    r = SRem(x, ys)
    q = x / ys
    if callee.endswith('rem_euclid'):
        val = If(r < 0, If(ys > 0, r + ys, r - ys), r)
    else:
        val = If(r < 0, If(ys > 0, q - 1, q + 1), q)
    if is_concrete_bool(pan) is False:
        return BV(val, True)
    raise NativeFork([(pan, lambda m2, a2: (_ for _ in ()).throw(NativePanic('attempt to divide with overflow or by zero'))), (Not(pan), lambda m2, a2: BV(val, True))])


@native(r'^std::ops::RangeInclusive::<(i8|i16|i32|i64|isize|u8|u16|u32|u64|usize)>::new$', 'RangeInclusive::new(a, b)')
def range_incl_new(vm, m, callee, args):
    return Struct('RangeInclusive', [dv(vm, args[0]), dv(vm, args[1])])


@native(r'^std::ops::RangeInclusive::<(i8|i16|i32|i64|isize|u8|u16|u32|u64|usize)>::contains::<', 'RangeInclusive::contains(x): a <= x <= b')
def range_incl_contains(vm, m, callee, args):
    r = dv(vm, args[0])
    x = dv(vm, args[1])
    a, b = dv(vm, r.fields[0]), dv(vm, r.fields[1])
    return And(CMPF['le'](a.v, x.v, a.signed), CMPF['le'](x.v, b.v, a.signed))


_INTS_RE = r'(i8|i16|i32|i64|isize|u8|u16|u32|u64|usize)'


@native(r'^core::num::<impl %s>::wrapping_(add|sub|mul)$' % _INTS_RE, 'iN/uN::wrapping_{add,sub,mul}: two\'s complement result in every profile')
def int_wrapping(vm, m, callee, args):
    a, b = dv(vm, args[0]), dv(vm, args[1])
    op = callee.rsplit('_', 1)[1]
    return BV({'add': a.v + b.v, 'sub': a.v - b.v, 'mul': a.v * b.v}[op], a.signed)


def _wide(a, b, op):
    from z3 import SignExt, ZeroExt
    w = a.v.size()
    ext = (lambda x: SignExt(w, x)) if a.signed else (lambda x: ZeroExt(w, x))
    x, y = ext(a.v), ext(b.v)
    return {'add': x + y, 'sub': x - y, 'mul': x * y}[op], w


def _range(w, signed):
    if signed:
        return BitVecVal(-(1 << (w - 1)), 2 * w), BitVecVal((1 << (w - 1)) - 1, 2 * w)
    return BitVecVal(0, 2 * w), BitVecVal((1 << w) - 1, 2 * w)


@native(r'^core::num::<impl %s>::saturating_(add|sub|mul)$' % _INTS_RE, 'iN/uN::saturating_{add,sub,mul}: the exact result clamped to the type\'s range')
def int_saturating(vm, m, callee, args):
    from z3 import Extract
    a, b = dv(vm, args[0]), dv(vm, args[1])
    r, w = _wide(a, b, callee.rsplit('_', 1)[1])
    mn, mx = _range(w, a.signed)
    # the doubled width holds the exact result; compare signed there (for unsigned operands the exact sub may be negative)
    return BV(Extract(w - 1, 0, If(r > mx, mx, If(r < mn, mn, r))), a.signed)


@native(r'^core::num::<impl %s>::checked_(add|sub|mul)$' % _INTS_RE, 'iN/uN::checked_{add,sub,mul}: None exactly when the exact result is out of range')
def int_checked(vm, m, callee, args):
    from z3 import Extract
    a, b = dv(vm, args[0]), dv(vm, args[1])
    r, w = _wide(a, b, callee.rsplit('_', 1)[1])
    mn, mx = _range(w, a.signed)
    out = Or(r > mx, r < mn)
    val = BV(Extract(w - 1, 0, r), a.signed)
    raise NativeFork([(out, lambda m2, a2: NONE()), (Not(out), lambda m2, a2: some(val))])


@native(r'^<&?(i8|i16|i32|i64|isize) as (std::ops::)?Neg>::neg$', 'integer negation (overflow as for add)')
def int_neg(vm, m, callee, args):
    a = dv(vm, args[0])
    r, pan = int_arith(vm, 'neg', a, a)
    if pan is None:
        return r
    raise NativeFork([(pan, lambda m2, a2: (_ for _ in ()).throw(NativePanic('attempt to negate with overflow'))),
                      (Not(pan), lambda m2, a2: int_arith(vm, 'neg', dv(vm, a2[0]), dv(vm, a2[0]))[0])])


CMPF = {'lt': lambda x, y, s: (x < y) if s else __import__('z3').ULT(x, y), 'le': lambda x, y, s: (x <= y) if s else __import__('z3').ULE(x, y),
        'gt': lambda x, y, s: (x > y) if s else __import__('z3').UGT(x, y), 'ge': lambda x, y, s: (x >= y) if s else __import__('z3').UGE(x, y),
        'eq': lambda x, y, s: x == y, 'ne': lambda x, y, s: x != y}


@native(r'^<&?&?(i8|i16|i32|i64|u8|u16|u32|u64|usize|isize|bool) as Partial(Ord|Eq)(<.*>)?>::(lt|le|gt|ge|eq|ne)$', 'integer / bool comparisons')
def int_cmp(vm, m, callee, args):
    op = callee.rsplit('::', 1)[1]
    a, b = dv(vm, args[0]), dv(vm, args[1])
    if isinstance(a, BV):
        return CMPF[op](a.v, b.v, a.signed)
    x, y = bool_(a), bool_(b)
    return {'eq': x == y, 'ne': x != y, 'lt': And(Not(x), y), 'le': Or(Not(x), y), 'gt': And(x, Not(y)), 'ge': Or(x, Not(y))}[op]


def ordering(lt, eq):
    return SymEnum('Ordering', [(lt, Enum('Ordering', 'Less')), (And(Not(lt), eq), Enum('Ordering', 'Equal')), (And(Not(lt), Not(eq)), Enum('Ordering', 'Greater'))])


@native(r'^<&?(i8|i16|i32|i64|u8|u16|u32|u64|usize|isize|bool) as (Ord|PartialOrd)>::(cmp|partial_cmp)$', 'integer / bool total order')
def int_ord(vm, m, callee, args):
    a, b = dv(vm, args[0]), dv(vm, args[1])
    if isinstance(a, BV):
        o = ordering(CMPF['lt'](a.v, b.v, a.signed), a.v == b.v)
    else:
        x, y = bool_(a), bool_(b)
        o = ordering(And(Not(x), y), x == y)
    return some(o) if callee.endswith('partial_cmp') else o


@native(r"^<(bitvec::ptr::)?BitRef<.*> as (std::ops::)?Not>::not$", 'negation of a bit reference yields the negated bool')
def bitref_not(vm, m, callee, args):
    return Not(bool_(dv(vm, args[0])))


@native(r'^<&+([a-z_]\w*::)+[A-Z]\w* as Partial(Ord|Eq)>::(lt|le|gt|ge|eq|ne)$', "comparison through references of a crate type: forwards to the type's own (derived) partial_cmp / eq, interpreted from MIR")
def ref_cmp(vm, m, callee, args):
    mm = re.match(r'^<&+((?:[a-z_]\w*::)+([A-Z]\w*)) as Partial(Ord|Eq)>::(\w+)$', callee)
    ty, op = mm.group(2), mm.group(4)
    def strip(x):
        # &&T -> &T
        while isinstance(x, Ref) and isinstance(vm._get(x.cell, x.path), Ref):
            x = vm._get(x.cell, x.path)
        return as_ref(x)
    a, b = strip(args[0]), strip(args[1])
    if op in ('eq', 'ne'):
        c = vm.prog.by_signature('eq', first_param='&' + ty)
        c = [n for n in c if 'PartialEq' in (vm.prog.get(n).header) or True]
        if len(c) != 1:
            raise Unsupported('PartialEq for %s: %d candidates' % (ty, len(c)))
        val, pan = call_merged(vm, m, c[0], [a, b])
        r = bool_(val)
        return r if op == 'eq' else Not(r)
    c = vm.prog.by_signature('partial_cmp', first_param='&' + ty)
    if len(c) != 1:
        raise Unsupported('PartialOrd for %s: %d candidates' % (ty, len(c)))
    val, pan = call_merged(vm, m, c[0], [a, b])
    v = dv(vm, val)
    alts = v.alts if isinstance(v, SymEnum) else [(BoolVal(True), v)]
    want = {'lt': ('Less',), 'le': ('Less', 'Equal'), 'gt': ('Greater',), 'ge': ('Greater', 'Equal')}[op]
    conds = []
    for c0, alt in alts:
        if alt.variant != 'Some':
            continue
        o = dv(vm, alt.fields[0])
        for c1, oa in (o.alts if isinstance(o, SymEnum) else [(BoolVal(True), o)]):
            if oa.variant in want:
                conds.append(And(c0, c1))
    return Or(conds) if conds else BoolVal(False)


@native(r'^std::mem::size_of::<(u8|i8|u16|i16|u32|i32|u64|i64|usize|isize|bool)>$', 'size_of a primitive')
def size_of(vm, m, callee, args):
    t = re.search(r'<(\w+)>$', callee).group(1)
    return mk_int({'u8': 1, 'i8': 1, 'bool': 1, 'u16': 2, 'i16': 2, 'u32': 4, 'i32': 4, 'u64': 8, 'i64': 8, 'usize': 8, 'isize': 8}[t], 'usize')


def _scalar_eq(vm, a, b):
    a, b = dv(vm, a), dv(vm, b)
    while isinstance(a, Ref):
        a = dv(vm, a)
    while isinstance(b, Ref):
        b = dv(vm, b)
    if isinstance(a, BV) and isinstance(b, BV):
        return a.v == b.v
    if isinstance(a, Struct) and isinstance(b, Struct) and len(a.fields) == len(b.fields):
        return And([_scalar_eq(vm, x, y) for x, y in zip(a.fields, b.fields)])
    try:
        return bool_(a) == bool_(b)
    except Exception:
        raise Unsupported('equality of %r and %r' % (a, b))


@native(r'^<std::option::Option<.*> as PartialEq>::(eq|ne)$', 'Option<T> == Option<T> for integer / bool / reference payloads')
def opt_eq(vm, m, callee, args):
    a, b = dv(vm, args[0]), dv(vm, args[1])
    la = a.alts if isinstance(a, SymEnum) else [(BoolVal(True), a)]
    lb = b.alts if isinstance(b, SymEnum) else [(BoolVal(True), b)]
    out = []
    for ca, x in la:
        for cb, y in lb:
            if x.variant != y.variant:
                continue
            out.append(And(ca, cb) if x.variant == 'None' else And(ca, cb, _scalar_eq(vm, x.fields[0], y.fields[0])))
    r = Or(out) if out else BoolVal(False)
    return r if callee.endswith('::eq') else Not(r)


@native(r'^<&?bool as (std::ops::)?Not>::not$', 'bool negation')
def bool_not(vm, m, callee, args):
    return Not(bool_(dv(vm, args[0])))


@native(r'^<(i8|i16|i32|i64) as (num_traits::)?(identities::)?Zero>::is_zero$', 'num_traits::Zero::is_zero')
def is_zero(vm, m, callee, args):
    a = dv(vm, args[0])
    return a.v == BitVecVal(0, a.width())


@native(r'^<(i16|i32|i64) as (num_traits::)?(cast::)?ToPrimitive>::to_(i16|i32|i64)$', 'num_traits::ToPrimitive: Some(value) when it fits, None otherwise')
def to_prim(vm, m, callee, args):
    a = dv(vm, args[0])
    to = callee.rsplit('to_', 1)[1]
    w, s = INT_TYPES[to]
    if w >= a.width():
        return some(BV(SignExt(w - a.width(), a.v) if w > a.width() else a.v, True))
    lo = Extract(w - 1, 0, a.v)
    fits = SignExt(a.width() - w, lo) == a.v
    return SymEnum('Option', [(fits, some(BV(lo, True))), (Not(fits), NONE())])


# ------------------------------------------------------------------------------------------------ slices, vectors, iterators
def seq_of(vm, v):
    v = dv(vm, v)
    if isinstance(v, Seq):
        return v
    if isinstance(v, Struct) and v.name in ('Box', 'Vec'):
        return seq_of(vm, v.fields[0])
    raise Unsupported('not a sequence: %r' % (v,))


@native(r'^core::slice::<impl \[.*\]>::iter$|^<&.*\[.*\] as IntoIterator>::into_iter$|^<&std::vec::Vec<.*> as IntoIterator>::into_iter$', 'slice::iter')
def slice_iter(vm, m, callee, args):
    return Iter('slice', ref=as_ref(args[0]), pos=0, end=None)


@native(r'^core::slice::<impl \[.*\]>::iter_mut$|^<&mut .* as IntoIterator>::into_iter$', 'slice::iter_mut')
def slice_iter_mut(vm, m, callee, args):
    return Iter('slice', ref=as_ref(args[0]), pos=0, end=None)


@native(r'^core::slice::<impl \[.*\]>::len$|^std::vec::Vec::<.*>::len$', 'slice::len')
def slice_len(vm, m, callee, args):
    return mk_int(len(seq_of(vm, args[0]).items), 'usize')


@native(r' as IntoIterator>::into_iter$', 'IntoIterator for an iterator is the identity')
def into_iter(vm, m, callee, args):
    v = dv(vm, args[0]) if isinstance(args[0], Ref) else args[0]
    if isinstance(v, Iter):
        return v
    if isinstance(v, Seq):
        return Iter('owned', items=list(v.items), pos=0)
    if isinstance(v, Struct) and v.name == 'Range':
        lo, hi = concrete_int(v.fields[0]), concrete_int(v.fields[1])
        if lo is None or hi is None:
            raise Unsupported('symbolic range')
        return Iter('owned', items=[BV(BitVecVal(i, v.fields[0].width()), v.fields[0].signed) for i in range(lo, hi)], pos=0)
    raise Unsupported('into_iter of %r' % (v,))


@native(r' as Iterator>::zip::<', 'Iterator::zip')
def it_zip(vm, m, callee, args):
    b = args[1]
    if not isinstance(b, Iter):
        b = into_iter(vm, m, callee, [b])
    return Iter('zip', a=args[0], b=b)


@native(r' as Iterator>::map::<', 'Iterator::map (lazy)')
def it_map(vm, m, callee, args):
    return Iter('map', inner=args[0], f=args[1])


@native(r' as Iterator>::enumerate$', 'Iterator::enumerate')
def it_enum(vm, m, callee, args):
    return Iter('enumerate', inner=args[0], n=0)


@native(r' as Iterator>::rev$', 'Iterator::rev on a double-ended iterator')
def it_rev(vm, m, callee, args):
    return Iter('rev', inner=args[0])


@native(r' as Iterator>::(cloned|copied)(::<.*>)?$', 'Iterator::cloned / copied')
def it_cloned(vm, m, callee, args):
    return Iter('cloned', inner=args[0])


@native(r'^bitvec::.*::by_vals$|^bitvec::.*::by_refs$', 'bit iterators yield the bits')
def bits_by_vals(vm, m, callee, args):
    return args[0]


@native(r' as Iterator>::flatten$', 'Iterator::flatten over Options')
def it_flatten(vm, m, callee, args):
    return Iter('flatten', inner=args[0])


@native(r' as Iterator>::filter::<', 'Iterator::filter (lazy)')
def it_filter(vm, m, callee, args):
    return Iter('filter', inner=args[0], f=args[1])


T = BoolVal(True)


def it_items(vm, m, it):
    """Remaining items of a concrete-length iterator as [(presence condition, value)], plus the condition under which
    evaluating them panics (closures run on every element, present or not, exactly as the lazy adaptors would)."""
    it = dv(vm, it) if isinstance(it, Ref) else it
    if isinstance(it, Struct) and it.name == 'Range':
        lo, hi = concrete_int(it.fields[0]), concrete_int(it.fields[1])
        if lo is None or hi is None:
            raise Unsupported('symbolic range')
        return [(T, BV(BitVecVal(i, it.fields[0].width()), it.fields[0].signed)) for i in range(lo, hi)], None
    if isinstance(it, Seq):
        return [(T, x) for x in it.items], None
    k = it.kind
    if k == 'owned':
        return [(T, x) for x in it.items[it.pos:]], None
    if k == 'cond':
        return list(it.items), None
    if k == 'slice':
        seq = seq_of(vm, it.ref)
        base = it.ref
        while isinstance(vm._get(base.cell, base.path), Ref):
            base = vm._get(base.cell, base.path)
        cell, path = base.cell, base.path
        v = vm._get(cell, path)
        if isinstance(v, Struct) and v.name in ('Box', 'Vec'):
            path = path + (('field', 0),)
        end = len(seq.items) if it.end is None else it.end
        return [(T, Ref(cell, path + (('index', i),))) for i in range(it.pos, end)], None
    if k == 'zip':
        a, pa = it_items(vm, m, it.a)
        b, pb = it_items(vm, m, it.b)
        n = min(len(a), len(b))
        if any(is_concrete_bool(c) is not True for c, _ in a[:n] + b[:n]):
            raise Unsupported('zip over a filtered stream')
        return [(T, Tup([x, y])) for (_, x), (_, y) in zip(a[:n], b[:n])], por(pa, pb)
    if k == 'enumerate':
        a, pa = it_items(vm, m, it.inner)
        if any(is_concrete_bool(c) is not True for c, _ in a):
            raise Unsupported('enumerate over a filtered stream')
        return [(T, Tup([mk_int(it.n + i, 'usize'), x])) for i, (_, x) in enumerate(a)], pa
    if k == 'rev':
        a, pa = it_items(vm, m, it.inner)
        return list(reversed(a)), pa
    if k == 'cloned':
        a, pa = it_items(vm, m, it.inner)
        return [(c, dv(vm, x)) for c, x in a], pa
    if k == 'map':
        a, pa = it_items(vm, m, it.inner)
        out, pans = [], [pa] if pa is not None else []
        for c, x in a:
            v, p = call_closure(vm, m, it.f, [x])
            out.append((c, v))
            if p is not None:
                pans.append(And(c, p))
        return out, (Or(pans) if pans else None)
    if k == 'filter':
        a, pa = it_items(vm, m, it.inner)
        out, pans = [], [pa] if pa is not None else []
        for c, x in a:
            v, p = call_closure(vm, m, it.f, [as_ref(x)])
            out.append((And(c, bool_(v)), x))
            if p is not None:
                pans.append(And(c, p))
        return out, (Or(pans) if pans else None)
    if k == 'flatten':
        a, pa = it_items(vm, m, it.inner)
        out = []
        for c, x in a:
            o = dv(vm, x)
            if isinstance(o, Enum):
                if o.variant == 'Some':
                    out.append((c, o.fields[0]))
            elif isinstance(o, SymEnum):
                for c2, alt in o.alts:
                    if alt.variant == 'Some':
                        out.append((And(c, c2), alt.fields[0]))
            else:
                raise Unsupported('flatten over %r' % (o,))
        return out, pa
    raise Unsupported('iterator kind ' + k)


def por(a, b):
    if a is None:
        return b
    if b is None:
        return a
    return Or(a, b)


def it_advance(vm, it, n=1):
    it = dv(vm, it) if isinstance(it, Ref) else it
    if isinstance(it, Struct) and it.name == 'Range':
        it.fields[0] = BV(it.fields[0].v + n, it.fields[0].signed)
        return
    k = it.kind
    if k in ('owned', 'slice'):
        it.pos += n
    elif k == 'zip':
        it_advance(vm, it.a, n), it_advance(vm, it.b, n)
    elif k == 'enumerate':
        it.n += n
        it_advance(vm, it.inner, n)
    elif k in ('map', 'cloned'):
        it_advance(vm, it.inner, n)
    elif k == 'rev':
        inner = dv(vm, it.inner) if isinstance(it.inner, Ref) else it.inner
        while isinstance(inner, Iter) and inner.kind in ('map', 'cloned'):
            inner = dv(vm, inner.inner) if isinstance(inner.inner, Ref) else inner.inner
        if isinstance(inner, Struct) and inner.name == 'Range':
            inner.fields[1] = BV(inner.fields[1].v - n, inner.fields[1].signed)
        elif inner.kind == 'slice':
            seq = seq_of(vm, inner.ref)
            inner.end = (len(seq.items) if inner.end is None else inner.end) - n
        elif inner.kind == 'owned':
            del inner.items[len(inner.items) - n:]
        else:
            raise Unsupported('rev over ' + inner.kind)
    else:
        raise Unsupported('advance ' + k)


def fork_on_panic(pan, cont):
    """Split into a panicking fork and a continuing one."""
    raise NativeFork([(pan, lambda m2, a2: (_ for _ in ()).throw(NativePanic('panic inside an iterator closure (arithmetic overflow)'))),
                      (Not(pan), cont)])


@native(r' as Iterator>::next$|^<.* as DoubleEndedIterator>::next_back$', 'Iterator::next')
def it_next(vm, m, callee, args, no_panic=False):
    it = dv(vm, args[0])
    items, pan = it_items(vm, m, it)
    if not items:
        return NONE()
    c0, v0 = items[0]
    if is_concrete_bool(c0) is not True:
        # filtered / flattened stream: which element comes first is symbolic. The result is Some(first present element)
        # and the iterator keeps every element that is present *and* not the first present one (cursor-free form).
        if pan is not None and not no_panic and is_concrete_bool(pan) is not False:
            fork_on_panic(pan, lambda m2, a2: it_next(vm, m2, callee, a2, True))
        alts, seen, rest = [], BoolVal(False), []
        for c, v in items:
            first = And(c, Not(seen))
            alts.append((first, some(v)))
            rest.append((And(c, seen), v))
            seen = Or(seen, c)
        alts.append((Not(seen), NONE()))
        it.__dict__.clear()
        it.kind = 'cond'
        it.items = rest
        return SymEnum('Option', alts)
    # only the first element is evaluated by next(): re-evaluate its closure alone for the panic condition
    first_pan = None
    if isinstance(it, Iter) and it.kind == 'map':
        inner_items, _ = it_items(vm, m, it.inner)
        _, first_pan = call_closure(vm, m, it.f, [inner_items[0][1]])
    if first_pan is not None and not no_panic and is_concrete_bool(first_pan) is not False:
        fork_on_panic(first_pan, lambda m2, a2: it_next(vm, m2, callee, a2, True))
    it_advance(vm, it)
    return some(v0)


def consume(vm, m, callee, args, fn, no_panic=False):
    items, pan = it_items(vm, m, args[0])
    if pan is not None and not no_panic and is_concrete_bool(pan) is not False:
        fork_on_panic(pan, lambda m2, a2: consume(vm, m2, callee, a2, fn, True))
    return fn(items)


def unconditional(items):
    if any(is_concrete_bool(c) is not True for c, _ in items):
        raise Unsupported('collecting a filtered stream (symbolic length)')
    return [x for _, x in items]


@native(r' as Iterator>::collect::<(std::boxed::)?(Box<\[.*\]>|(std::vec::)?Vec<.*>)>$', 'collect into Box<[T]> / Vec<T>')
def it_collect(vm, m, callee, args):
    return consume(vm, m, callee, args, lambda items: Seq(unconditional(items)))


@native(r' as Iterator>::collect::<(bitvec::vec::)?BitVec>$', 'collect bools into a BitVec')
def it_collect_bits(vm, m, callee, args):
    return consume(vm, m, callee, args, lambda items: Bits([bool_(dv(vm, x)) for x in unconditional(items)]))


@native(r' as Iterator>::collect::<(array::)?(primitive_array::)?PrimitiveArray<.*>>$', "collect into a PrimitiveArray: the crate's own FromIterator impl (interpreted from its MIR)")
def it_collect_prim(vm, m, callee, args):
    items, _ = it_items(vm, m, args[0])
    opt = any(isinstance(dv(vm, x), (Enum, SymEnum)) and getattr(dv(vm, x), 'ty', None) == 'Option' for _, x in items)
    want = 'Option<T>' if opt else 'T'
    cands = []
    for name in vm.prog.by_tail.get('from_iter', []):
        info = vm.prog.impl_info(name)
        if info and info[0] and info[0].replace(' ', '') == 'FromIterator<%s>' % want and info[1].replace(' ', '').startswith('PrimitiveArray<T>'):
            cands.append(name)
    if len(cands) != 1:
        raise Unsupported('FromIterator<%s> for PrimitiveArray<T>: %d candidates' % (want, len(cands)))
    t = re.search(r'PrimitiveArray<(.*)>>$', callee).group(1)
    val, pan = call_merged(vm, m, cands[0], [args[0]], {'T': t})
    if pan is not None:
        raise Unsupported('from_iter may panic')
    return val


@native(r'^<(std::vec::Vec<.*>|\[.*\]) as (std::ops::)?Index(Mut)?<usize>>::index(_mut)?$', 'vec[i] / slice[i] (panics when out of range)')
def vec_index(vm, m, callee, args):
    s = dv(vm, args[0])
    while isinstance(s, Ref):
        s = dv(vm, s)
    i = concrete_int(dv(vm, args[1]))
    if not isinstance(s, Seq) or i is None:
        raise Unsupported('vec[i] of %r' % (s,))
    if i >= len(s.items):
        raise NativePanic('index out of bounds: the len is %d but the index is %d' % (len(s.items), i))
    holder = args[0]
    while isinstance(holder, Ref) and isinstance(vm._get(holder.cell, holder.path), Ref):
        holder = vm._get(holder.cell, holder.path)
    return Ref(holder.cell, holder.path + (('index', i),)) if isinstance(holder, Ref) else Ref(Cell(s.items[i]))


@native(r'^<(std::vec::Vec<.*>|\[.*\]) as (std::ops::)?Index(Mut)?<(std::ops::)?Range(From|To)?<usize>>>::index(_mut)?$', 'vec / slice [a..b], [a..], [..b] (panics when out of range)')
def slice_range(vm, m, callee, args):
    s_ = dv(vm, args[0])
    while isinstance(s_, Ref):
        s_ = dv(vm, s_)
    r = dv(vm, args[1])
    kind = re.search(r'Range(From|To)?<usize>', callee).group(1)
    f = [concrete_int(x) for x in r.fields]
    if not isinstance(s_, Seq) or any(x is None for x in f):
        raise Unsupported('range index of %r' % (s_,))
    lo, hi = (f[0], len(s_.items)) if kind == 'From' else ((0, f[0]) if kind == 'To' else (f[0], f[1]))
    if lo > hi or hi > len(s_.items):
        raise NativePanic('range %d..%d out of range for a slice of length %d' % (lo, hi, len(s_.items)))
    return Ref(Cell(Seq(s_.items[lo:hi], 'slice')))


@native(r' as Iterator>::take_while::<', 'Iterator::take_while(pred): the items before the first one failing pred (one fork per cut)')
def it_take_while(vm, m, callee, args):
    items, pan = it_items(vm, m, args[0])
    if any(is_concrete_bool(c) is not True for c, _ in items):
        raise Unsupported('take_while over a filtered stream')
    preds = []
    for _, x in items:
        v, p = call_closure(vm, m, args[1], [Ref(Cell(x))])
        preds.append(bool_(v))
    alts = []
    for k in range(len(preds) + 1):
        cond = And([preds[i] for i in range(k)] + ([Not(preds[k])] if k < len(preds) else []))
        alts.append((cond, (lambda m2, a2, k=k: Iter('owned', items=[x for _, x in items[:k]], pos=0))))
    raise NativeFork(alts)


@native(r' as Iterator>::last$', 'Iterator::last')
def it_last(vm, m, callee, args):
    items, pan = it_items(vm, m, args[0])
    if any(is_concrete_bool(c) is not True for c, _ in items):
        raise Unsupported('last over a filtered stream')
    return some(items[-1][1]) if items else NONE()


@native(r'^std::option::Option::<.*>::map_or::<', 'Option::map_or(default, f)')
def opt_map_or(vm, m, callee, args):
    o = dv(vm, args[0]) if isinstance(args[0], Ref) else args[0]
    if not isinstance(o, Enum):
        raise Unsupported('map_or on a symbolic Option')
    if o.variant == 'None':
        return args[1]
    v, p = call_closure(vm, m, args[2], [o.fields[0]])
    return v


@native(r' as Iterator>::(find|any|all)::<', 'Iterator::find / any / all over a concrete-length stream (predicate evaluated on every element up to the first hit; one fork per outcome)')
def it_find_any_all(vm, m, callee, args):
    kind = re.search(r'Iterator>::(find|any|all)::<', callee).group(1)
    items, pan = it_items(vm, m, args[0])
    if any(is_concrete_bool(c) is not True for c, _ in items):
        raise Unsupported('%s over a filtered stream' % kind)
    preds = []
    for _, x in items:
        v, p = call_closure(vm, m, args[1], [Ref(Cell(x))] if kind == 'find' else [x])
        preds.append(bool_(v) if kind != 'all' else Not(bool_(v)))
    alts = []
    for k in range(len(preds) + 1):
        cond = And([Not(preds[i]) for i in range(k)] + ([preds[k]] if k < len(preds) else []))
        if kind == 'find':
            val = (lambda m2, a2, k=k: some(items[k][1]) if k < len(items) else NONE())
        elif kind == 'any':
            val = (lambda m2, a2, k=k: BoolVal(k < len(items)))
        else:
            val = (lambda m2, a2, k=k: BoolVal(not (k < len(items))))
        alts.append((cond, val))
    raise NativeFork(alts)


@native(r' as Iterator>::count$', 'Iterator::count')
def it_count(vm, m, callee, args):
    def cnt(items):
        acc = BitVecVal(0, 64)
        for c, _ in items:
            acc = acc + If(c, BitVecVal(1, 64), BitVecVal(0, 64))
        return BV(acc, False)
    return consume(vm, m, callee, args, cnt)


@native(r' as Iterator>::sum::<(i16|i32|i64)>$', 'Iterator::sum of integers (overflow as for add)')
def it_sum(vm, m, callee, args, no_panic=False):
    ty = re.search(r'sum::<(\w+)>$', callee).group(1)
    items, pan = it_items(vm, m, args[0])
    acc = mk_int(0, ty)
    pans = [pan] if pan is not None else []
    for c, x in items:
        x = dv(vm, x)
        r, p = int_arith(vm, 'add', acc, x)
        if p is not None:
            pans.append(And(c, p))
        acc = BV(If(c, r.v, acc.v), acc.signed)
    pans = [p for p in pans if is_concrete_bool(p) is not False]
    if pans and not no_panic:
        fork_on_panic(Or(pans), lambda m2, a2: it_sum(vm, m2, callee, a2, True))
    return acc


@native(r' as Iterator>::(min|max)$', 'Iterator::min / max: None when empty; max keeps the last maximum, min the first minimum')
def it_minmax(vm, m, callee, args, no_panic=False):
    is_min = callee.endswith('min')
    items, pan = it_items(vm, m, args[0])
    if pan is not None and not no_panic and is_concrete_bool(pan) is not False:
        fork_on_panic(pan, lambda m2, a2: it_minmax(vm, m2, callee, a2, True))
    have, best = BoolVal(False), None
    for c, x in items:
        xv = dv(vm, x)
        if isinstance(xv, type(BoolVal(True))):
            raise Unsupported('min/max over booleans')
        if not isinstance(xv, BV):
            raise Unsupported('min/max over %r' % (xv,))
        if best is None:
            have, best = c, xv
            continue
        better = (xv.v < best.v) if is_min else (xv.v >= best.v)
        take = And(c, Or(Not(have), better))
        best = BV(If(take, xv.v, best.v), xv.signed)
        have = Or(have, c)
    if best is None:
        return NONE()
    val = Ref(Cell(best))
    if is_concrete_bool(have) is True:
        return some(val)
    return SymEnum('Option', [(have, some(val)), (Not(have), NONE())])


@native(r' as Iterator>::(any|all)::<', 'Iterator::any / all')
def it_any(vm, m, callee, args):
    items, pan = it_items(vm, m, args[0])
    res = []
    for c, x in items:
        v, p = call_closure(vm, m, args[1], [x])
        res.append(And(c, bool_(v)) if 'any::<' in callee else Or(Not(c), bool_(v)))
    if 'any::<' in callee:
        return Or(res) if res else BoolVal(False)
    return And(res) if res else BoolVal(True)


@native(r'^std::option::Option::<.*>::flatten$', 'Option<Option<T>>::flatten')
def opt_flatten(vm, m, callee, args):
    o = args[0]
    alts = []
    outer = o.alts if isinstance(o, SymEnum) else [(BoolVal(True), o)]
    for c, a in outer:
        if a.variant == 'None':
            alts.append((c, NONE()))
            continue
        inner = dv(vm, a.fields[0])
        ia = inner.alts if isinstance(inner, SymEnum) else [(BoolVal(True), inner)]
        for c2, b in ia:
            alts.append((And(c, c2), b))
    return SymEnum('Option', alts) if len(alts) > 1 else alts[0][1]


# ------------------------------------------------------------------------------------------------ bitvec
def bits_of(vm, v):
    v = dv(vm, v)
    if isinstance(v, Bits):
        return v
    raise Unsupported('not a BitVec: %r' % (v,))


@native(r'^<bitvec::vec::BitVec as BitVecExt>::and$', 'BitVecExt::and = bitwise and of equal-length vectors (checked on compiled code by engine K)')
def bv_and(vm, m, callee, args):
    a, b = bits_of(vm, args[0]), bits_of(vm, args[1])
    return Bits([And(x, y) for x, y in zip(a.bits, b.bits)])


@native(r'^<bitvec::vec::BitVec as BitVecExt>::not_then_and$', 'BitVecExt::not_then_and = !self & other (engine K)')
def bv_nta(vm, m, callee, args):
    a, b = bits_of(vm, args[0]), bits_of(vm, args[1])
    return Bits([And(Not(x), y) for x, y in zip(a.bits, b.bits)])


@native(r'^<bitvec::vec::BitVec as BitVecExt>::or$', 'BitVecExt::or: self |= other (engine K)')
def bv_or(vm, m, callee, args):
    a, b = bits_of(vm, args[0]), bits_of(vm, args[1])
    a.bits = [Or(x, y) for x, y in zip(a.bits, b.bits)]
    return UNIT


@native(r'^<bitvec::vec::BitVec as BitVecExt>::from_bool_slice$', 'BitVecExt::from_bool_slice = one bit per bool (portable-SIMD; exhaustively checked natively for lengths <= 8 at setup)')
def bv_from_bools(vm, m, callee, args):
    return Bits([bool_(dv(vm, x)) for x in seq_of(vm, args[0]).items])


@native(r'^(bitvec::.*|BitSlice|BitVec)(<.*>)?::len$', 'BitVec::len')
def bv_len(vm, m, callee, args):
    return mk_int(len(bits_of(vm, args[0]).bits), 'usize')


@native(r'^(bitvec::.*|BitSlice|BitVec)(<.*>)?::count_ones$', 'count_ones')
def bv_count_ones(vm, m, callee, args):
    bs = bits_of(vm, args[0]).bits
    acc = BitVecVal(0, 64)
    for b in bs:
        acc = acc + If(b, BitVecVal(1, 64), BitVecVal(0, 64))
    return BV(acc, False)


@native(r'^(bitvec::.*|BitSlice|BitVec)(<.*>)?::set$', 'BitSlice::set(index, value)')
def bv_set(vm, m, callee, args):
    b = bits_of(vm, args[0])
    i = concrete_int(args[1])
    if i is None:
        raise Unsupported('symbolic bit index')
    b.bits[i] = bool_(args[2])
    return UNIT


@native(r'^(bitvec::.*|BitSlice|BitVec)(<.*>)?::push$', 'BitVec::push')
def bv_push(vm, m, callee, args):
    bits_of(vm, args[0]).bits.append(bool_(args[1]))
    return UNIT


@native(r'^(bitvec::.*|BitVec)(<.*>)?::(with_capacity|new)$', 'BitVec::new / with_capacity')
def bv_new(vm, m, callee, args):
    return Bits([])


@native(r'^(bitvec::.*|BitVec)(<.*>)?::repeat$', 'BitVec::repeat(bit, len)')
def bv_repeat(vm, m, callee, args):
    n = concrete_int(args[1])
    return Bits([bool_(args[0])] * n)


@native(r'^<bitvec::vec::BitVec as Deref>::deref$|^<bitvec::vec::BitVec as DerefMut>::deref_mut$|^bitvec::vec::BitVec::(<.*>::)?as_bitslice$', 'BitVec derefs to its bits')
def bv_deref(vm, m, callee, args):
    return args[0]


@native(r'^bitvec::.*::iter$|^<&bitvec::.* as IntoIterator>::into_iter$', 'BitSlice::iter yields the bits')
def bv_iter(vm, m, callee, args):
    return Iter('owned', items=[b for b in bits_of(vm, args[0]).bits], pos=0)


@native(r'^<bitvec::.* as (std::ops::)?Index<usize>>::index$', 'bits[idx]')
def bv_index(vm, m, callee, args):
    i = concrete_int(args[1])
    if i is None:
        raise Unsupported('symbolic bit index')
    return Ref(Cell(bits_of(vm, args[0]).bits[i]))


@native(r'^bitvec::.*::get_unchecked::<usize>$|^bitvec::.*::get::<usize>$', 'bits.get(idx)')
def bv_get(vm, m, callee, args):
    i = concrete_int(args[1])
    b = bits_of(vm, args[0]).bits[i]
    return Ref(Cell(b)) if 'unchecked' in callee else some(Ref(Cell(b)))


@native(r'^<(bitvec::ptr::)?BitRef<.*> as Deref>::deref$', 'BitRef derefs to the bit')
def bitref_deref(vm, m, callee, args):
    return args[0] if isinstance(dv(vm, args[0]), type(BoolVal(True))) or True else args[0]


@native(r'^std::vec::Vec::<.*>::push$', 'Vec::push')
def vec_push(vm, m, callee, args):
    seq_of(vm, args[0]).items.append(args[1])
    return UNIT


@native(r'^std::vec::Vec::<.*>::(with_capacity|new)$', 'Vec::new / with_capacity')
def vec_new(vm, m, callee, args):
    return Seq([])


@native(r'^<(std::vec::)?Vec<.*> as Into<(std::boxed::)?Box<\[.*\]>>>::into$|^std::vec::Vec::<.*>::into_boxed_slice$', 'Vec -> Box<[T]>')
def vec_into_box(vm, m, callee, args):
    return args[0]


@native(r'^std::mem::take::<', 'mem::take leaves the default behind')
def mem_take(vm, m, callee, args):
    r = args[0]
    v = vm._get(r.cell, r.path)
    if isinstance(v, Bits):
        vm._set(r.cell, r.path, Bits([]))
    elif isinstance(v, Seq):
        vm._set(r.cell, r.path, Seq([]))
    elif isinstance(v, Enum) and v.ty in ('AggState',):
        vm._set(r.cell, r.path, Enum('AggState', 'Value', [Enum('DataValue', 'Null')]))
    else:
        raise Unsupported('mem::take of %r' % (v,))
    return v


CRATE_CONTRACTS = []


def crate_contract(pattern, doc):
    def deco(fn):
        NATIVES.insert(0, (re.compile(pattern), fn))
        CRATE_CONTRACTS.append('%s: %s' % (pattern, doc))
        return fn
    return deco


@crate_contract(r'(^|::)clear_null$', 'clear_null(array): data[i] &= valid[i] (body uses portable SIMD masks; checked natively against this definition at setup)')
def clear_null(vm, m, callee, args):
    a = args[0]
    valid, data = a.fields[0], a.fields[1]
    data.items = [And(bool_(d), v) for d, v in zip(data.items, valid.bits)]
    return a


# ------------------------------------------------------------------------------------------------ enum tables
def parse_enum(text, name):
    m = re.search(r'pub enum %s(?:<[^>]*>)?\s*\{' % re.escape(name), text)
    if not m:
        return None
    i = m.end() - 1
    depth, j = 0, i
    while j < len(text):
        if text[j] == '{':
            depth += 1
        elif text[j] == '}':
            depth -= 1
            if depth == 0:
                break
        j += 1
    body = text[i + 1:j]
    body = re.sub(r'//[^\n]*', '', body)
    body = re.sub(r'#\[[^\]]*\]', '', body)
    out, depth, cur = [], 0, ''
    for ch in body:
        if ch in '({[<':
            depth += 1
        elif ch in ')}]>':
            depth -= 1
        if ch == ',' and depth == 0:
            out.append(cur)
            cur = ''
        else:
            cur += ch
    out.append(cur)
    names = []
    for v in out:
        v = v.strip()
        mm = re.match(r'([A-Z]\w*)', v)
        if mm:
            names.append(mm.group(1))
    return names


def load_enums():
    enums = {'Option': ['None', 'Some'], 'Result': ['Ok', 'Err'], 'ControlFlow': ['Continue', 'Break'],
             'Ordering': {'Less': -1, 'Equal': 0, 'Greater': 1}, 'AssertKind': ['Eq', 'Ne', 'Match'], 'Bound': ['Included', 'Excluded', 'Unbounded']}
    want = {'ArrayImpl': 'src/array/mod.rs', 'DataValue': 'src/types/value.rs', 'DataType': 'src/types/mod.rs', 'AggState': 'src/executor/evaluator.rs',
            'ConvertError': 'src/types/mod.rs', 'ArrayBuilderImpl': 'src/array/mod.rs', 'JoinType': 'src/executor/hash_join.rs'}
    for name, path in want.items():
        p = os.path.join(REPO, path)
        vs = parse_enum(open(p).read(), name) if os.path.exists(p) else None
        if vs is None:
            # search the crate
            for f in glob.glob(os.path.join(REPO, 'src/**/*.rs'), recursive=True):
                vs = parse_enum(open(f).read(), name)
                if vs:
                    break
        if vs:
            enums[name] = vs
    # sqlparser operators (BinaryOperator / UnaryOperator) from the vendored registry source
    for f in glob.glob(os.path.expanduser('~/.cargo/registry/src/*/sqlparser-0.53*/src/ast/operator.rs')):
        t = open(f).read()
        for n in ('BinaryOperator', 'UnaryOperator'):
            vs = parse_enum(t, n)
            if vs:
                enums[n] = vs
    # the plan language: variant order is the order of define_language!
    t = open(os.path.join(REPO, 'src/planner/mod.rs')).read()
    mm = re.search(r'define_language!\s*\{\s*pub enum Expr\s*\{(.*?)\n    \}\n\}', t, re.S)
    if mm:
        body = re.sub(r'//[^\n]*', '', mm.group(1))
        vs = []
        for line in body.split('\n'):
            line = line.strip()
            m2 = re.match(r'(?:"[^"]*"\s*=\s*)?([A-Z]\w*)', line)
            if m2:
                vs.append(m2.group(1))
        enums['Expr'] = vs
    return enums


# ------------------------------------------------------------------------------------------------ evaluator boundary
def eval_obj(node_variant, array):
    """An Evaluator positioned on an aggregate node `(<agg> <arg>)`; evaluating the argument yields `array`."""
    node = Enum('Expr', node_variant, [Opaque('id:arg')] if node_variant != 'RowCount' else [])
    return Struct('EvalObj', [node, array])


@crate_contract(r'(^|::)Evaluator::<.*>::node$', 'Evaluator::node returns the plan node under the cursor (the aggregate call being evaluated)')
def ev_node(vm, m, callee, args):
    r = args[0]
    while isinstance(vm._get(r.cell, r.path), Ref):
        r = vm._get(r.cell, r.path)
    return Ref(r.cell, r.path + (('field', 0),))


@crate_contract(r'(^|::)Evaluator::<.*>::next$', "Evaluator::next moves the cursor to a child (here: the aggregate's argument)")
def ev_next(vm, m, callee, args):
    e = dv(vm, args[0])
    return Struct('EvalObj', [Enum('Expr', 'ColumnIndex', [Opaque('arg')]), e.fields[1]])


@crate_contract(r'(^|::)Evaluator::<.*>::eval$', "Evaluator::eval of the aggregate's argument yields the argument array of the chunk")
def ev_eval(vm, m, callee, args):
    import copy
    e = dv(vm, args[0])
    return Enum('Result', 'Ok', [copy.deepcopy(e.fields[1])])


@crate_contract(r'(^|::)DataChunk::cardinality$', 'DataChunk::cardinality = number of rows of the chunk')
def chunk_card(vm, m, callee, args):
    c = dv(vm, args[0])
    return mk_int(c.fields[0], 'usize')


@native(r'^<std::collections::HashSet<.*> as (std::default::)?Default>::default$|^std::collections::HashSet::<.*>::(new|default)$', 'HashSet::default is the empty set')
def hs_new(vm, m, callee, args):
    return Struct('HashSet', [Seq([])])


@native(r'^std::collections::HashSet::<.*>::insert$', 'HashSet::insert adds the value unless an equal one is present (set of symbolic values kept as a list of candidates)')
def hs_insert(vm, m, callee, args):
    h = dv(vm, args[0])
    h.fields[0].items.append(args[1])
    return BoolVal(True)


@native(r'^<std::collections::HashSet<.*> as Extend<.*>>::extend::<', 'HashSet::extend(iter): inserts every item the iterator yields (one fork per subset of a filtered stream)')
def hs_extend(vm, m, callee, args):
    import itertools as _it
    items, pan = it_items(vm, m, args[1])
    sym = [k for k, (c, _) in enumerate(items) if is_concrete_bool(c) is not True]
    if len(sym) > 4:
        raise Unsupported('HashSet::extend over more than 4 conditional items')

    def doer(choice):
        def run(m2, a2):
            h = dv(vm, a2[0])
            for k, (c, x) in enumerate(items):
                if k in sym and not choice[sym.index(k)]:
                    continue
                if is_concrete_bool(c) is False:
                    continue
                h.fields[0].items.append(dv(vm, x) if isinstance(x, Ref) else x)
            return UNIT
        return run
    alts = []
    for choice in _it.product((True, False), repeat=len(sym)):
        cond = And([items[k][0] if ch else Not(items[k][0]) for k, ch in zip(sym, choice)]) if sym else BoolVal(True)
        alts.append((cond, doer(choice)))
    if len(alts) == 1:
        return alts[0][1](m, args)
    raise NativeFork(alts)


@native(r' as Iterator>::try_fold::<', 'Iterator::try_fold(init, f) with f returning a Result: folds until the first Err')
def it_try_fold(vm, m, callee, args):
    items, pan = it_items(vm, m, args[0])
    if any(is_concrete_bool(c) is not True for c, _ in items):
        raise Unsupported('try_fold over a filtered stream')
    acc = args[1]
    for _, x in items:
        r, p = call_closure(vm, m, args[2], [acc, x])
        r = dv(vm, r) if isinstance(r, Ref) else r
        if not isinstance(r, Enum) or r.ty not in ('Result', 'ControlFlow', 'Option'):
            raise Unsupported('try_fold step returned %r' % (r,))
        if r.variant in ('Err', 'Break', 'None'):
            return r
        acc = r.fields[0]
    return Enum('Result', 'Ok', [acc])


@native(r'^std::collections::HashSet::<.*>::len$', 'HashSet::len = number of pairwise-distinct members')
def hs_len(vm, m, callee, args):
    h = dv(vm, args[0])
    items = h.fields[0].items
    acc = BitVecVal(0, 64)
    for j, x in enumerate(items):
        dup = Or([datavalue_eq(vm, items[i], x) for i in range(j)]) if j else BoolVal(False)
        acc = acc + If(dup, BitVecVal(0, 64), BitVecVal(1, 64))
    return BV(acc, False)


def datavalue_eq(vm, a, b):
    """Derived PartialEq of DataValue on (possibly symbolic-variant) values."""
    la = a.alts if isinstance(a, SymEnum) else [(BoolVal(True), a)]
    lb = b.alts if isinstance(b, SymEnum) else [(BoolVal(True), b)]
    out = []
    for ca, x in la:
        for cb, y in lb:
            if x.variant != y.variant:
                continue
            if not x.fields:
                out.append(And(ca, cb))
            else:
                p, q = x.fields[0], y.fields[0]
                out.append(And(ca, cb, (p.v == q.v) if isinstance(p, BV) else (bool_(p) == bool_(q))))
    return Or(out) if out else BoolVal(False)


@native(r'^<(i8|i16|i32|i64|u8|u16|u32|u64|usize|isize) as Ord>::(min|max)$|^std::cmp::(min|max)::<(i8|i16|i32|i64|u8|u16|u32|u64|usize|isize)>$', 'Ord::min / max on integers')
def int_minmax(vm, m, callee, args):
    a, b = dv(vm, args[0]), dv(vm, args[1])
    lt = CMPF['lt'](a.v, b.v, a.signed)
    if callee.endswith('min') or '::min::' in callee:
        return BV(If(lt, a.v, b.v), a.signed)      # min(a, b): a if a <= b  (equal values are indistinguishable)
    return BV(If(lt, b.v, a.v), a.signed)


# ------------------------------------------------------------------------------------------------ OrderedFloat<f64> (ordered-float 4.5, external crate)
# F64 = OrderedFloat<f64> is Struct('OrderedFloat', [FP]).  Its operators are the crate's: arithmetic is IEEE on the
# payload; == holds between two NaNs; >= is `self is NaN | self.0 >= other.0` and lt / le / gt are derived from it (lib.rs
# lines 271-326 of the vendored source), i.e. a total order with NaN greatest and -0 = +0.
def _of(vm, v):
    v = dv(vm, v)
    if isinstance(v, Struct) and v.name == 'OrderedFloat':
        v = dv(vm, v.fields[0])
    if not isinstance(v, FP):
        raise Unsupported('not an f64: %r' % (v,))
    return v.v


def _wrap(x):
    return Struct('OrderedFloat', [FP(x)])


@native(r'^<(ordered_float::)?OrderedFloat<f64> as (std::convert::)?From<f64>>::from$|^<f64 as Into<(ordered_float::)?OrderedFloat<f64>>>::into$', 'OrderedFloat::from(f64)')
def of_from(vm, m, callee, args):
    return _wrap(_of(vm, args[0]))


@native(r'^<&?(ordered_float::)?OrderedFloat<f64> as (std::ops::)?(Add|Sub|Mul|Div|Rem)(<.*>)?>::(add|sub|mul|div|rem)$', 'OrderedFloat arithmetic: IEEE 754 on the payload (round to nearest even; % is fmod, uninterpreted)')
def of_arith(vm, m, callee, args):
    op = callee.rsplit('::', 1)[1]
    return _wrap(fp_binop(op.capitalize(), _of(vm, args[0]), _of(vm, args[1])).v)


@native(r'^<&?(ordered_float::)?OrderedFloat<f64> as (std::ops::)?Neg>::neg$', 'OrderedFloat negation: sign flip')
def of_neg(vm, m, callee, args):
    from z3 import fpNeg
    return _wrap(fpNeg(_of(vm, args[0])))


def of_ge(x, y):
    from z3 import fpIsNaN, fpGEQ
    return Or(fpIsNaN(x), fpGEQ(x, y))


@native(r'^<&?(ordered_float::)?OrderedFloat<f64> as (std::cmp::)?PartialEq>::(eq|ne)$', 'OrderedFloat ==: both NaN, or IEEE equal')
def of_eq(vm, m, callee, args):
    from z3 import fpIsNaN, fpEQ
    x, y = _of(vm, args[0]), _of(vm, args[1])
    e = If(fpIsNaN(x), fpIsNaN(y), fpEQ(x, y))
    return e if callee.endswith('::eq') else Not(e)


@native(r'^<&?(ordered_float::)?OrderedFloat<f64> as (std::cmp::)?PartialEq<f64>>::(eq|ne)$', 'OrderedFloat == f64: IEEE equality of the payload')
def of_eq_f64(vm, m, callee, args):
    from z3 import fpEQ
    e = fpEQ(_of(vm, args[0]), _of(vm, args[1]))
    return e if callee.endswith('::eq') else Not(e)


@native(r'^<&?(ordered_float::)?OrderedFloat<f64> as (std::cmp::)?PartialOrd>::(lt|le|gt|ge)$', 'OrderedFloat ordering: ge = self is NaN | self >= other; lt = !ge, le = other.ge(self), gt = !other.ge(self)')
def of_ord(vm, m, callee, args):
    x, y = _of(vm, args[0]), _of(vm, args[1])
    k = callee.rsplit('::', 1)[1]
    return {'ge': of_ge(x, y), 'lt': Not(of_ge(x, y)), 'le': of_ge(y, x), 'gt': Not(of_ge(y, x))}[k]


@native(r'^<(ordered_float::)?OrderedFloat<f64> as (num_traits::)?(identities::)?Zero>::is_zero$', 'OrderedFloat::is_zero: the payload is +0 or -0')
def of_is_zero(vm, m, callee, args):
    from z3 import fpIsZero
    return fpIsZero(_of(vm, args[0]))


@native(r'^<(ordered_float::)?OrderedFloat<f64> as (std::ops::)?Deref>::deref$', 'OrderedFloat deref: the payload')
def of_deref(vm, m, callee, args):
    return FP(_of(vm, args[0]))


# ------------------------------------------------------------------------------------------------ strings (C20)
# Strings are identities (z3 Int): 0 = "", 1 = "NULL", other literals get distinct ids >= 10, symbolic strings are fresh
# Int symbols.  Display/FromStr of each scalar type are an uninterpreted pair: to_string(v) is a fresh string s with
# parses_T(s) and parse_T(s) == v, different from "" and "NULL" (assumption, listed); "" and "NULL" never parse as a
# number or a bool (true of the std parsers).
from z3 import Int, IntVal, Function, IntSort, BoolSort, BitVecSort

_lits = {'': 0, 'NULL': 1}
STR_AXIOMS = []
_fresh = [0]


def sid_of(vm, v):
    v = dv(vm, v)
    if isinstance(v, Str):
        if getattr(v, 'sid', None) is not None:
            return v.sid
        if v.s not in _lits:
            _lits[v.s] = 10 + len(_lits)
        return IntVal(_lits[v.s])
    raise Unsupported('not a string: %r' % (v,))


def sym_str(sid):
    s = Str(None)
    s.sid = sid
    return s


def parse_fns(ty):
    w = {'bool': None, 'i16': 16, 'i32': 32, 'i64': 64}[ty]
    return (Function('parses_' + ty, IntSort(), BoolSort()),
            Function('parse_' + ty, IntSort(), BoolSort() if w is None else BitVecSort(w)))


@native(r'^<&?&?(str|std::string::String) as PartialEq(<&?&?(str|std::string::String)>)?>::(eq|ne)$', 'string equality: same string identity')
def str_eq(vm, m, callee, args):
    a, b = sid_of(vm, dv(vm, args[0])), sid_of(vm, dv(vm, args[1]))
    return (a == b) if callee.endswith('::eq') else (a != b)


# trimming and case folding are uninterpreted functions on string identities: trim("") = "", trim("NULL") = "NULL",
# trim is idempotent, printed scalars contain no blanks; nothing says trim(s) != "" for s != "", so a blank-only string is
# a possible value of a symbolic string (the witness is then mapped to " ").
STR_TRIM = Function('str_trim', IntSort(), IntSort())
STR_EQIC = Function('str_eq_ignore_case', IntSort(), IntSort(), BoolSort())
STR_AXIOMS.append(And(STR_TRIM(IntVal(0)) == 0, STR_TRIM(IntVal(1)) == 1))


@native(r'^core::str::<impl str>::trim(_start|_end)?$', 'str::trim / trim_start / trim_end: an uninterpreted idempotent function fixing "" and "NULL" (one function stands for the three)')
def str_trim(vm, m, callee, args):
    sid = sid_of(vm, args[0])
    t = STR_TRIM(sid)
    STR_AXIOMS.append(STR_TRIM(t) == t)
    return sym_str(t)


@native(r'^core::str::<impl str>::eq_ignore_ascii_case$', 'str::eq_ignore_ascii_case: an uninterpreted reflexive, symmetric relation containing equality; "" is only related to itself')
def str_eqic(vm, m, callee, args):
    a, b = sid_of(vm, args[0]), sid_of(vm, args[1])
    r = STR_EQIC(a, b)
    STR_AXIOMS.append(And(Or(a != b, r), r == STR_EQIC(b, a), Or(Not(r), (a == 0) == (b == 0))))
    return r


@native(r'^core::str::<impl str>::is_empty$|^std::string::String::is_empty$', 'str::is_empty')
def str_is_empty(vm, m, callee, args):
    return sid_of(vm, args[0]) == 0


@native(r'^<(bool|i16|i32|i64) as (std::string::)?ToString>::to_string$', 'Display of a scalar: a fresh non-empty string that is not "NULL" and parses back to the value (uninterpreted bijection)')
def scalar_to_string(vm, m, callee, args):
    ty = re.match(r'^<(\w+) as', callee).group(1)
    v = dv(vm, args[0])
    _fresh[0] += 1
    s = Int('str!%d' % _fresh[0])
    ps, pf = parse_fns(ty)
    val = v.v if isinstance(v, BV) else bool_(v)
    # defining axioms of the fresh string: kept globally (the call may run inside a nested closure evaluation)
    STR_AXIOMS.append(And(s >= 2, ps(s), pf(s) == val, STR_TRIM(s) == s))
    return sym_str(s)


@native(r'^core::str::<impl str>::parse::<(bool|i16|i32|i64)>$', 'str::parse::<T>: Ok(parse_T(s)) iff parses_T(s); "" and "NULL" do not parse')
def str_parse(vm, m, callee, args):
    ty = re.search(r'parse::<(\w+)>$', callee).group(1)
    sid = sid_of(vm, args[0])
    ps, pf = parse_fns(ty)
    ok = And(ps(sid), sid != 0, sid != 1)
    val = pf(sid)
    v = BV(val, True) if ty != 'bool' else val
    return SymEnum('Result', [(ok, Enum('Result', 'Ok', [v])), (Not(ok), Enum('Result', 'Err', [Opaque('parse error')]))])


@native(r'^std::result::Result::<.*>::map_err::<', 'Result::map_err keeps Ok, maps Err (the mapped error is opaque)')
def res_map_err(vm, m, callee, args):
    r = args[0]
    def one(a):
        return a if a.variant == 'Ok' else Enum('Result', 'Err', [Opaque('mapped error')])
    if isinstance(r, Enum):
        return one(r)
    return SymEnum('Result', [(c, one(a)) for c, a in r.alts])


@native(r'^std::option::Option::<.*>::map::<', 'Option::map applies the closure to Some')
def opt_map(vm, m, callee, args):
    o = args[0]
    def one(a):
        if a.variant == 'None':
            return a
        v, p = call_closure(vm, m, args[1], [a.fields[0]])
        return some(v)
    if isinstance(o, Enum):
        return one(o)
    alts = []
    for c, a in o.alts:
        m.pc.append(c)
        try:
            alts.append((c, one(a)))
        finally:
            m.pc.pop()
    return SymEnum('Option', alts)


@native(r'^std::option::Option::<.*>::unwrap_or$', 'Option::unwrap_or(default)')
def opt_unwrap_or(vm, m, callee, args):
    o = dv(vm, args[0]) if isinstance(args[0], Ref) else args[0]
    if isinstance(o, Enum):
        return o.fields[0] if o.variant == 'Some' else args[1]
    raise Unsupported('unwrap_or on a symbolic Option')


@native(r'^std::option::Option::<.*>::unwrap_or_else::<', 'Option::unwrap_or_else')
def opt_unwrap_or_else(vm, m, callee, args):
    o = args[0]
    dflt, _ = call_closure(vm, m, args[1], [])
    if isinstance(o, Enum):
        return o.fields[0] if o.variant == 'Some' else dflt
    # merge strings by identity
    val_sid = sid_of(vm, dflt)
    for c, a in o.alts:
        if a.variant == 'Some':
            val_sid = If(c, sid_of(vm, a.fields[0]), val_sid)
    return sym_str(val_sid)


@native(r'^<std::string::String as (Deref|AsRef<str>|Borrow<str>)>::(deref|as_ref|borrow)$|^std::string::String::as_str$|^<str as (std::string::)?ToString>::to_string$|^<std::string::String as From<&str>>::from$', 'String <-> str keep the text')
def string_deref(vm, m, callee, args):
    return args[0]


# string arrays: a VarArray<str> / its builder are modelled as a list of Option<string identity> (crate contract)
@crate_contract(r'^<(array::)?(var_array::)?(VarArrayBuilder|BytesArrayBuilder)<str> as (array::)?ArrayBuilder>::push$',
                'StringArrayBuilder::push appends the optional string (offset/byte layout is not modelled)')
def strarr_push(vm, m, callee, args):
    b = dv(vm, args[0])
    b.fields[0].items.append(args[1])
    return UNIT


@crate_contract(r'^<(array::)?(var_array::)?VarArray<str> as (array::)?Array>::get$', 'StringArray::get returns the stored optional string')
def strarr_get(vm, m, callee, args):
    a = dv(vm, args[0])
    i = concrete_int(args[1])
    return a.fields[0].items[i]


@native(r'^std::string::String::new$', 'String::new is the empty string')
def string_new(vm, m, callee, args):
    return Str('')


@native(r'^<std::string::String as Into<(std::boxed::)?Box<str>>>::into$|^<(std::boxed::)?Box<str> as From<std::string::String>>::from$|^<str as ToOwned>::to_owned$', 'String / Box<str> conversions keep the text')
def string_into_box(vm, m, callee, args):
    return dv(vm, args[0])
