#!/bin/bash
# usage: seed_run.sh <seed-id> <tier> <prop> [<prop> ...]
# Applies /verif/seeded/<seed-id>/patch.diff to /repo, runs the named checks, and undoes the change straight afterwards.
set -u
ID=$1; TIER=$2; shift 2
P=/verif/seeded/$ID/patch.diff
git -C /repo diff --quiet || { echo "/repo is not clean"; exit 2; }
git -C /repo apply "$P" || exit 2
trap 'git -C /repo checkout -- .; git -C /repo status --short | grep -v "^??" ' EXIT
mkdir -p /verif/work/seedlogs
for C in "$@"; do
  L=/verif/work/seedlogs/${ID}_${C}_${TIER}.log
  ( cd /verif && VERIF_EVIDENCE_DIR=/verif/work/seedlogs/ev ./bin/check $C --tier $TIER > $L 2>&1 ); RC=$?
  echo "seed=$ID check=$C tier=$TIER exit=$RC violations=$(grep -c '^VIOLATION' $L)"
  grep -A1 '^VIOLATION' $L | grep 'what:' | cut -c1-400 | head -5
done
