#!/bin/bash
# Runs every quick check against /repo itself and leaves the evidence files in /verif/evidence (maintainer tool).
cd /verif
unset VERIF_EVIDENCE_DIR
for c in C20 C16 C14 C11 C13 C07 C12 C02 C01 C06 C19; do
  ./bin/check $c --tier quick > work/refresh_$c.log 2>&1
  echo "REFRESH $c rc=$? $(grep -v '^KNOWN' work/refresh_$c.log | grep "^$c:" | tail -1)"
done
