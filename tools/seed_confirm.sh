#!/bin/bash
# usage: seed_confirm.sh <worktree> <seed-id>
# Confirms a seeded change in its scratch worktree: (1) demo passes on the pristine source, (2) demo fails with the change,
# (3) the existing suite passes with the change.  On success stores it under /verif/seeded/<seed-id>/.
set -u
WT=$1; ID=$2
export CARGO_NET_OFFLINE=true
cd "$WT" || exit 2
P=$WT/_seed/patch.diff
[ -s "$P" ] || { echo "no patch"; exit 2; }
git apply -R --check "$P" 2>/dev/null && git apply -R "$P"      # make pristine (tracked files)
git diff --quiet || { echo "worktree not pristine after reverting the patch"; git status --short | head; exit 2; }
echo "== demo on pristine source"
bash _seed/demo/run.sh > _seed/demo_pristine.log 2>&1; A=$?
echo "exit $A"
git apply "$P" || { echo "patch does not apply"; exit 2; }
echo "== demo with the change"
bash _seed/demo/run.sh > _seed/demo_changed.log 2>&1; B=$?
echo "exit $B"
echo "== suite with the change"
# remove demo artefacts the run.sh may have copied into the tree (examples/, tests/) so the suite is the unedited one
git status --short | grep '^??' | grep -v '_seed' | awk '{print $2}' > _seed/untracked.txt
while read -r f; do rm -rf "$WT/$f"; done < _seed/untracked.txt
cargo nextest run --workspace --no-fail-fast --test-threads 8 --offline > _seed/suite.log 2>&1; C=$?
tail -3 _seed/suite.log
echo "pristine=$A changed=$B suite=$C"
if [ $A -eq 0 ] && [ $B -ne 0 ] && [ $C -eq 0 ]; then
  mkdir -p /verif/seeded/$ID
  cp -r _seed/patch.diff _seed/meta.json _seed/demo /verif/seeded/$ID/
  tail -5 _seed/demo_changed.log > /verif/seeded/$ID/demo_changed.tail
  echo "CONFIRMED -> /verif/seeded/$ID"
else
  echo "NOT CONFIRMED"; exit 1
fi
