#!/usr/bin/env python3
"""Maintainer tool (never run by a check): turn the VIOLATION replays of the last run of a property into candidate
known-findings entries, to be reviewed by hand before they are committed to known_findings.json."""
import json, glob, sys, os
HERE = os.path.dirname(os.path.dirname(os.path.abspath(__file__)))
prop = sys.argv[1]
kf_path = os.path.join(HERE, 'known_findings.json')
kf = json.load(open(kf_path)) if os.path.exists(kf_path) else {'findings': [], 'fixed': []}
have = {(e['key']): e for e in kf['findings']}
n = 0
for f in sorted(glob.glob(os.path.join(HERE, 'replays', prop + '_violation_*.json'))):
    d = json.load(open(f))
    key = d['key']
    r = d['replay']
    rep = r.get('replay', {}) if isinstance(r, dict) else {}
    what = r.get('what') if isinstance(r, dict) else None
    if key in have:
        if prop not in have[key]['properties']:
            have[key]['properties'].append(prop)
        continue
    mode = {True: 'reproduced on the real executor', None: 'model-referenced (a side is not executable by the real executor)'}.get(rep.get('reproduced'), 'unknown')
    e = {'properties': [prop], 'key': key, 'what': (sys.argv[2] + ': ' if len(sys.argv) > 2 else '') + key.split('|')[0] + ' -- ' + mode, 'status': 'open'}
    kf['findings'].append(e)
    have[key] = e
    n += 1
json.dump(kf, open(kf_path, 'w'), indent=1)
print('added', n, 'entries; total', len(kf['findings']))
