//! rl — driver binary used by /verif's checks to consume the real risinglight code.
//!
//! Sub-commands (all read one JSON document on stdin, write JSON on stdout):
//!   rules                 dump the compiled rule inventory (hook `Optimizer::verif_rule_inventory`)
//!   sql                   run SQL statements through `Database::run` (memory or disk engine)
//!   plans                 bind + optimize statements under several optimizer configurations
//!   planrun               run s-expression plans through the real `executor::build`
//!   keyrange              KeyRange that the executor's Scan arm derives from a filter expression
//!
//! Everything runs on a current-thread tokio runtime, like the repository's own sqllogictest.

use std::io::Read;
use std::sync::Arc;

use egg::Language;
use futures::TryStreamExt;
use risinglight::Database;
use risinglight::array::{ArrayImpl, DataChunk};
use risinglight::binder::Binder;
use risinglight::catalog::RootCatalogRef;
use risinglight::planner::{Config, ExprAnalysis, Optimizer, RecExpr, Statistics, TypeSchemaAnalysis};
use risinglight::storage::{InMemoryStorage, SecondaryStorageOptions};
use risinglight::types::DataValue;
use serde_json::{Value, json};

static PANICKED: std::sync::atomic::AtomicBool = std::sync::atomic::AtomicBool::new(false);
static LAST_PANIC: std::sync::Mutex<String> = std::sync::Mutex::new(String::new());

/// Operators run in spawned tasks; a panic there is swallowed by the runtime and the statement
/// "succeeds" with rows missing. Record it so that callers can tell.
fn install_panic_flag() {
    std::panic::set_hook(Box::new(|info| {
        PANICKED.store(true, std::sync::atomic::Ordering::SeqCst);
        let loc = info
            .location()
            .map(|l| {
                let f = l.file();
                // keep the path from the crate name on (registry hashes and absolute prefixes vary)
                let f = f.rsplit_once("/src/").map(|(a, b)| format!("{}/src/{}", a.rsplit('/').next().unwrap_or(""), b)).unwrap_or(f.to_string());
                format!("{}:{}", f, l.line())
            })
            .unwrap_or_default();
        *LAST_PANIC.lock().unwrap() = loc;
        eprintln!("panic: {info}");
    }));
}

fn take_panicked() -> bool {
    PANICKED.swap(false, std::sync::atomic::Ordering::SeqCst)
}

fn cell(a: &ArrayImpl, i: usize) -> Value {
    match a.get(i) {
        DataValue::Null => Value::Null,
        DataValue::String(s) => Value::String(s.to_string()),
        v => Value::String(v.to_string()),
    }
}

fn chunks_to_json(chunks: &[DataChunk]) -> (Vec<Value>, Vec<Value>) {
    let mut rows = vec![];
    let mut types = vec![];
    for dc in chunks {
        if types.is_empty() {
            types = dc.arrays().iter().map(|a| json!(a.type_string())).collect();
        }
        for r in 0..dc.cardinality() {
            rows.push(Value::Array(dc.arrays().iter().map(|a| cell(a, r)).collect()));
        }
    }
    (rows, types)
}

fn read_stdin() -> Value {
    let mut s = String::new();
    std::io::stdin().read_to_string(&mut s).unwrap();
    serde_json::from_str(&s).expect("stdin must be JSON")
}

fn strs(v: &Value) -> Vec<String> {
    v.as_array()
        .map(|a| a.iter().map(|x| x.as_str().unwrap().to_string()).collect())
        .unwrap_or_default()
}

async fn open_db(input: &Value) -> Database {
    if input["engine"] == "disk" {
        let mut o = SecondaryStorageOptions::default_for_cli();
        o.path = input["dir"].as_str().unwrap().into();
        if let Some(v) = input["block"].as_u64() {
            o.target_block_size = v as usize;
        }
        if let Some(v) = input["rowset"].as_u64() {
            o.target_rowset_size = v as usize;
        }
        Database::new_on_disk(o).await
    } else {
        Database::new_in_memory()
    }
}

async fn cmd_sql(input: Value) {
    let mut db = open_db(&input).await;
    for stmt in strs(&input["stmts"]) {
        // `--reopen`: clean shutdown, then open the same directory again (disk engine only)
        if stmt.trim() == "--reopen" {
            let r = db.shutdown().await;
            drop(db);
            db = open_db(&input).await;
            println!("{}", json!({"sql": stmt, "ok": r.is_ok(), "rows": [], "types": [], "panicked": take_panicked()}));
            continue;
        }
        // `--sleep <ms>`: let background work (the compactor's 1 s timer) run between two statements
        if let Some(ms) = stmt.strip_prefix("--sleep ") {
            tokio::time::sleep(std::time::Duration::from_millis(ms.trim().parse().unwrap_or(0))).await;
            println!("{}", json!({"sql": stmt, "ok": true, "rows": [], "types": [], "panicked": take_panicked()}));
            continue;
        }
        let out = match db.run(&stmt).await {
            Ok(chunks) => {
                let mut rows = vec![];
                let mut types = vec![];
                for c in &chunks {
                    let (r, t) = chunks_to_json(c.data_chunks());
                    rows.extend(r);
                    if types.is_empty() {
                        types = t;
                    }
                }
                json!({"sql": stmt, "ok": true, "rows": rows, "types": types, "panicked": take_panicked()})
            }
            Err(e) => json!({"sql": stmt, "ok": false, "err": e.to_string(), "panicked": take_panicked()}),
        };
        println!("{out}");
    }
    let _ = db.shutdown().await;
}

struct Session {
    storage: Arc<InMemoryStorage>,
    catalog: RootCatalogRef,
}

impl Session {
    fn new() -> Self {
        let storage = Arc::new(InMemoryStorage::new());
        let catalog = storage.catalog().clone();
        Session { storage, catalog }
    }
    fn optimizer(&self, cfg: &Value) -> Optimizer {
        let mut stat = Statistics::default();
        if let Some(m) = cfg["stats"].as_object() {
            for (t, n) in m {
                if let Some(id) = self.catalog.get_table_id_by_name("postgres", t) {
                    stat.add_row_count(id, n.as_u64().unwrap() as u32);
                }
            }
        }
        Optimizer::new(
            self.catalog.clone(),
            stat,
            Config {
                enable_range_filter_scan: cfg["range"].as_bool().unwrap_or(false),
                table_is_sorted_by_primary_key: cfg["sorted"].as_bool().unwrap_or(false),
            },
        )
    }
    /// parse → bind → (optimize) → executor::build, as `Database::run` does.
    async fn run(&self, sql: &str, optimize: bool) -> Result<Vec<DataChunk>, String> {
        let opt = self.optimizer(&json!({}));
        let mut out = vec![];
        for stmt in risinglight::parser::parse(sql).map_err(|e| e.to_string())? {
            let mut binder = Binder::new(self.catalog.clone());
            let mut plan = binder.bind(stmt).map_err(|e| e.to_string())?;
            if optimize {
                plan = opt.optimize(plan);
            }
            let chunks: Vec<DataChunk> = risinglight::executor::build(opt.clone(), self.storage.clone(), &plan)
                .try_collect()
                .await
                .map_err(|e| e.to_string())?;
            out.extend(chunks);
        }
        Ok(out)
    }
    async fn setup(&self, stmts: &[String]) {
        for s in stmts {
            if let Err(e) = self.run(s, true).await {
                println!("{}", json!({"setup_err": e, "sql": s}));
            }
        }
    }
}

/// Printed plans drop the schema id (`$t.c`), and a bare `$t.c` parses into schema 0 (pg_catalog).
/// Re-qualify every table/column node of schema 0 into the user schema so that printed plans round-trip.
fn requalify(catalog: &RootCatalogRef, e: &RecExpr) -> RecExpr {
    use risinglight::catalog::{ColumnRefId, TableRefId};
    use risinglight::planner::Expr;
    let schema = catalog
        .get_schema_by_name("postgres")
        .map(|s| s.id())
        .unwrap_or(1);
    let nodes: Vec<Expr> = e
        .as_ref()
        .iter()
        .map(|n| match n {
            Expr::Column(c) if c.schema_id == 0 => {
                Expr::Column(ColumnRefId::new(schema, c.table_id, c.table_occurrence, c.column_id))
            }
            Expr::Table(t) if t.schema_id == 0 => Expr::Table(TableRefId::new(schema, t.table_id)),
            n => n.clone(),
        })
        .collect();
    RecExpr::from(nodes)
}

fn root_type(catalog: &RootCatalogRef, plan: &RecExpr) -> String {
    let mut eg = egg::EGraph::new(TypeSchemaAnalysis {
        catalog: catalog.clone(),
    });
    let root = eg.add_expr(plan);
    match &eg[root].data.type_ {
        Ok(t) => t.to_string(),
        Err(e) => format!("ERR {e:?}"),
    }
}

/// The `KeyRange` the executor's `Scan` arm derives from a filter (same three statements).
fn key_range(filter: &RecExpr) -> Option<(String, String, String)> {
    let mut eg = egg::EGraph::new(ExprAnalysis::default());
    let root = eg.add_expr(filter);
    eg[root]
        .data
        .range
        .clone()
        .map(|(c, r)| (c.to_string(), format!("{:?}", r.start), format!("{:?}", r.end)))
}

fn scan_ranges(plan: &RecExpr) -> Vec<Value> {
    use risinglight::planner::Expr;
    let mut out = vec![];
    for node in plan.as_ref() {
        if let Expr::Scan([_, _, filter]) = node {
            let f = plan.as_ref()[usize::from(*filter)].build_recexpr(|id| plan.as_ref()[usize::from(id)].clone());
            let fs = f.to_string();
            if fs != "true" {
                let r = key_range(&f);
                out.push(json!({"filter": fs, "range": r.map(|(c, s, e)| json!({"col": c, "start": s, "end": e}))}));
            }
        }
    }
    out
}

fn catalog_json(catalog: &RootCatalogRef) -> Value {
    let mut tabs = vec![];
    if let Some(schema) = catalog.get_schema_by_name("postgres") {
        for (id, t) in schema.all_tables() {
            let cols: Vec<Value> = t
                .all_columns()
                .iter()
                .map(|(cid, c)| {
                    json!({"id": cid, "name": c.name(), "type": c.data_type().to_string(),
                           "nullable": c.is_nullable(), "primary": c.is_primary()})
                })
                .collect();
            tabs.push(json!({"id": id, "name": t.name(), "view": t.is_view(), "columns": cols}));
        }
    }
    json!({"catalog": tabs})
}

async fn cmd_plans(input: Value) {
    let sess = Session::new();
    sess.setup(&strs(&input["setup"])).await;
    println!("{}", catalog_json(&sess.catalog));
    let configs = input["configs"].as_array().cloned().unwrap_or_default();
    for sql in strs(&input["queries"]) {
        let stmts = match risinglight::parser::parse(&sql) {
            Ok(s) => s,
            Err(e) => {
                println!("{}", json!({"sql": sql, "parse_err": e.to_string()}));
                continue;
            }
        };
        for stmt in stmts {
            let mut binder = Binder::new(sess.catalog.clone());
            let plan = match binder.bind(stmt) {
                Ok(p) => p,
                Err(e) => {
                    println!("{}", json!({"sql": sql, "bind_err": e.to_string()}));
                    continue;
                }
            };
            let mut opts = serde_json::Map::new();
            for cfg in &configs {
                let opt = sess.optimizer(cfg);
                let ban = strs(&cfg["ban"]);
                let o = std::panic::catch_unwind(std::panic::AssertUnwindSafe(|| {
                    if ban.is_empty() {
                        opt.optimize(plan.clone())
                    } else {
                        opt.verif_optimize_without(plan.clone(), &ban)
                    }
                }));
                let name = cfg["name"].as_str().unwrap().to_string();
                match o {
                    Ok(o) => {
                        opts.insert(
                            name,
                            json!({"plan": o.to_string(), "type": root_type(&sess.catalog, &o), "ranges": scan_ranges(&o)}),
                        );
                    }
                    Err(_) => {
                        take_panicked();
                        opts.insert(name, json!({"panic": true, "where": LAST_PANIC.lock().unwrap().clone()}));
                    }
                }
            }
            println!(
                "{}",
                json!({"sql": sql, "bound": plan.to_string(), "type": root_type(&sess.catalog, &plan), "opt": opts})
            );
        }
    }
}

async fn cmd_planrun(input: Value) {
    // {"batches": [{"setup": [...], "plans": [...]}, ...]}: each batch runs on a fresh in-memory database
    if let Some(batches) = input["batches"].as_array() {
        for (i, b) in batches.iter().enumerate() {
            println!("{}", json!({"batch": i}));
            Box::pin(cmd_planrun(b.clone())).await;
        }
        return;
    }
    let sess = Session::new();
    sess.setup(&strs(&input["setup"])).await;
    let opt = sess.optimizer(&json!({}));
    for p in strs(&input["plans"]) {
        let plan: RecExpr = match p.parse() {
            Ok(p) => p,
            Err(e) => {
                println!("{}", json!({"plan": p, "ok": false, "err": format!("parse: {e}")}));
                continue;
            }
        };
        let plan = requalify(&sess.catalog, &plan);
        let res: Result<Vec<DataChunk>, _> = risinglight::executor::build(opt.clone(), sess.storage.clone(), &plan)
            .try_collect()
            .await;
        match res {
            Ok(chunks) => {
                let (rows, types) = chunks_to_json(&chunks);
                println!("{}", json!({"plan": p, "ok": true, "rows": rows, "types": types, "panicked": take_panicked()}));
            }
            Err(e) => println!("{}", json!({"plan": p, "ok": false, "err": e.to_string(), "panicked": take_panicked()})),
        }
    }
}

async fn cmd_applyrule(input: Value) {
    let sess = Session::new();
    sess.setup(&strs(&input["setup"])).await;
    let opt = sess.optimizer(&input["config"]);
    for item in input["items"].as_array().cloned().unwrap_or_default() {
        let name = item["name"].as_str().unwrap();
        let lhs = item["lhs"].as_str().unwrap();
        let e = item["expr"].as_str().unwrap();
        let expr: RecExpr = match e.parse() {
            Ok(x) => x,
            Err(err) => {
                println!("{}", json!({"name": name, "expr": e, "parse_err": format!("{err}")}));
                continue;
            }
        };
        let expr = requalify(&sess.catalog, &expr);
        let r = std::panic::catch_unwind(std::panic::AssertUnwindSafe(|| opt.verif_apply_rule(name, lhs, &expr)));
        match r {
            Ok(Some(v)) => {
                let outs: Vec<String> = v.iter().map(|x| x.to_string()).collect();
                println!("{}", json!({"name": name, "expr": expr.to_string(), "out": outs}));
            }
            Ok(None) => println!("{}", json!({"name": name, "expr": e, "norule": true})),
            Err(_) => println!("{}", json!({"name": name, "expr": e, "panic": true})),
        }
    }
}

fn cmd_keyrange(input: Value) {
    for e in strs(&input["exprs"]) {
        let f: RecExpr = e.parse().unwrap();
        let r = key_range(&f);
        println!(
            "{}",
            json!({"expr": e, "range": r.map(|(c, s, e)| json!({"col": c, "start": s, "end": e}))})
        );
    }
}

fn cmd_rules() {
    let inv: Vec<Value> = Optimizer::verif_rule_inventory()
        .into_iter()
        .map(|(stage, name, lhs, rhs)| json!({"stage": stage, "name": name, "lhs": lhs, "rhs": rhs}))
        .collect();
    println!("{}", Value::Array(inv));
}

#[tokio::main(flavor = "current_thread")]
async fn main() {
    install_panic_flag();
    let cmd = std::env::args().nth(1).unwrap_or_default();
    match cmd.as_str() {
        "rules" => cmd_rules(),
        "sql" => cmd_sql(read_stdin()).await,
        "plans" => cmd_plans(read_stdin()).await,
        "planrun" => cmd_planrun(read_stdin()).await,
        "keyrange" => cmd_keyrange(read_stdin()),
        "applyrule" => cmd_applyrule(read_stdin()).await,
        _ => {
            eprintln!("usage: rl rules|sql|plans|planrun|keyrange  < input.json");
            std::process::exit(64);
        }
    }
}
