#!/usr/bin/env python3
"""Regenerates MANIFEST.json from the table below (single source of truth for claimed / not-applicable)."""
import json, os, subprocess
HERE = os.path.dirname(os.path.abspath(__file__))

NA = {
 'C03': 'bootstrap / manifest replay / rewrite are async tokio file I/O + serde_json + moka: not executable by Kani/CBMC, not loop-free scalar code for the MIR interpreter, nothing rule-like to translate',
 'C04': 'same code as C03 plus crash points inside file writes/rename; process death and torn writes are outside what the installed solver-based engines model',
 'C05': 'needs both storage engines end to end (async iterators, moka, files); the planner-visible part (engine-specific Config flags must not change answers) is decided under C01/C12/C13',
 'C08': 'schedules over pin/commit/vacuum: no concurrency in Kani, and VersionManager does not compile under Kani 0.68 (internal compiler error)',
 'C09': 'schedules over compactor passes and tokio mutexes; no installed solver-based engine encodes them from the real code',
 'C10': 'multi-session, multi-threaded schedules; same reason as C09',
 'C15': 'fault propagation through tokio tasks and async_broadcast channels; no encodable unit',
 'C17': 'structural check of concrete plans with no symbolic data; the program quantifier cannot be made symbolic; malformed optimized plans surface as C01 findings',
 'C18': 'read path is async + moka (where "every later read" lives); the detection predicate alone hits CPUID asm in crc32fast, memory exhaustion on a symbolic flip position and a getenv FFI call on the error path under Kani - what would remain verifies stubs',
}
PENDING = {}  # filled below for properties whose check is not built yet

CHECKS = {}   # id -> dict(level, text, note, technique, engine, design_ref)

def load_checks():
    p = os.path.join(HERE, 'checks.json')
    return json.load(open(p)) if os.path.exists(p) else {}

def main():
    checks = load_checks()
    all_ids = ['C%02d' % i for i in range(1, 21)]
    man = {
        'version': 1,
        'setup_cmd': './bin/setup',
        'hooks': {
            'guard': '--cfg risinglight_verif',
            'enable': 'RUSTFLAGS="--cfg tokio_unstable --cfg risinglight_verif" (driver crate /verif/driver and Kani crate /verif/kani depend on /repo by path; MIR is dumped from /repo with the same cfg)',
            'baseline_off_cmd': 'cd /repo && cargo nextest run --workspace --no-fail-fast --test-threads 8 --offline || cargo test --workspace --no-fail-fast --offline',
            'source_commits': subprocess.run(['git', '-C', '/repo', 'log', '--format=%H', '--grep=^verif hooks'], capture_output=True, text=True).stdout.split(),
            'add_only': True,
        },
        'engines': [
            {'name': 'R', 'path': 'relsmt', 'serves_properties': ['C01', 'C02', 'C12', 'C13'], 'kind_free_text': 'python+z3: rewrite rules applied by the real egg rules / plans from the real binder+optimizer encoded over K-row symbolic tables with 3VL; counterexamples replayed through the real executor'},
            {'name': 'M', 'path': 'mirsmt', 'serves_properties': ['C02', 'C06', 'C07', 'C11', 'C13', 'C14', 'C16', 'C19', 'C20'], 'kind_free_text': 'python+z3: symbolic interpretation of rustc MIR dumped from /repo on every run (kernels, evaluator arms, aggregate state machine, block seek, nullable block iterator, interval accessors; std/bitvec primitives as natives); multiply/divide-by-constant chains decided by an exact bit-vector->integer translation'},
            {'name': 'K', 'path': 'kani', 'serves_properties': ['C06', 'C19', 'C14'], 'kind_free_text': 'Kani 0.68 / CBMC proof harnesses over the compiled crate (codecs, plain blocks, DataValue laws, bit-vector primitives)'},
        ],
        'checks': [],
        'not_applicable': [],
        'notes': 'Exit codes of every check: 0 = every promised obligation discharged (known findings printed as KNOWN-FINDING lines), 1 = new reproduced violation (VIOLATION line), 2 = inconclusive (build/solver/translator problem; never a pass).',
    }
    for pid in all_ids:
        if pid in checks:
            c = checks[pid]
            man['checks'].append({
                'property_id': pid,
                'quick_cmd': './bin/check %s --tier quick' % pid,
                'thorough_cmd': './bin/check %s --tier thorough' % pid,
                'evidence_file': 'evidence/%s.json' % pid,
                'replay_cmd_template': './bin/check %s --replay {path}' % pid,
                'engine': c['engine'],
                'level_claimed': {'category': c['level'], 'text': c['text'], 'design_ref': c['design_ref']},
                'level_note': c['note'],
                'technique': c['technique'],
            })
        else:
            man['not_applicable'].append({'property_id': pid, 'reason': NA.get(pid) or 'claimed in DESIGN.md; check not yet built in this tree (see DESIGN.md section 3)'})
    json.dump(man, open(os.path.join(HERE, 'MANIFEST.json'), 'w'), indent=1)

if __name__ == '__main__':
    main()
